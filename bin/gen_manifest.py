#!/usr/bin/env python3
"""gen_manifest.py - writes /verif/MANIFEST.json from harness/recipes.py (single source of truth)."""
import importlib.util
import json
import os

VERIF = os.path.dirname(os.path.dirname(os.path.abspath(__file__)))
spec = importlib.util.spec_from_file_location("recipes", os.path.join(VERIF, "harness", "recipes.py"))
rec = importlib.util.module_from_spec(spec)
spec.loader.exec_module(rec)

props = [json.loads(l) for l in open(os.path.join(VERIF, "properties.jsonl"))]
checks = []
na = []
for p in props:
    pid = p["id"]
    r = rec.RECIPES.get(pid)
    if not r or not r.get("claimed", True) or not r.get("jobs"):
        na.append({"property_id": pid, "reason": (r or {}).get("na_reason", rec.NOT_APPLICABLE.get(pid, "no solver-decided check has been built for this property yet"))})
        continue
    checks.append({
        "property_id": pid,
        "quick_cmd": "bin/check %s --tier quick" % pid,
        "thorough_cmd": "bin/check %s --tier thorough" % pid,
        "evidence_file": "evidence/%s.json" % pid,
        "replay_cmd_template": "bin/check %s --replay {path}" % pid,
        "engine": "cbmc",
        "level_claimed": {
            "category": "model_checking",
            "text": r.get("level_text", "bounded model checking of the real translation units with CBMC: every obligation is decided by the SAT solver for all values of the symbolic inputs inside the stated bounds"),
            "design_ref": r.get("design_ref", "DESIGN.md section 4"),
        },
        "level_note": r.get("level_note", "trusted: CBMC 6.11, the environment model in harness/env, the harness oracles; bounds as in the evidence file"),
        "technique": r.get("technique", "bounded symbolic execution of the real C units (goto-cc + CBMC, SAT back end) with unwinding assertions; counterexamples replayed natively under ASan/UBSan"),
    })

manifest = {
    "version": 1,
    "setup_cmd": "bin/setup",
    "hooks": {
        "guard": "UNDERNETIRC_IAUTHD_C_VERIF",
        "enable": "no hooks are needed: harnesses reach file-local state through inclusion wrappers (harness/tu/*.c) that #include the unmodified /repo sources",
        "baseline_off_cmd": "bin/run_repo_tests.sh",
        "source_commits": [],
        "add_only": True,
    },
    "engines": [
        {"name": "cbmc", "path": "bin/check", "serves_properties": [c["property_id"] for c in checks],
         "kind_free_text": "driver: goto-cc compiles the real /repo units + harness + environment model from the current working tree, goto-instrument restricts function pointers, cbmc decides every obligation (SAT), failed obligations are replayed natively (gcc, ASan/UBSan, real libc)"},
    ],
    "checks": checks,
    "not_applicable": na,
    "notes": "All checks claim model_checking (bounded symbolic execution of the real code). Bounds, stubs and what lies outside each claim are in DESIGN.md and in each evidence file. Genuine defects found are listed in known_findings.json (all fixed ones carry their fix: commit).",
}
with open(os.path.join(VERIF, "MANIFEST.json"), "w") as f:
    json.dump(manifest, f, indent=1)
    f.write("\n")
print("MANIFEST.json: %d checks, %d not_applicable" % (len(checks), len(na)))
