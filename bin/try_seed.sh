#!/bin/bash
# try_seed.sh <patch.diff> <ID> [<ID>...] - apply a seeded change to a scratch copy of /repo and run the
# quick checks of the given properties against it (VP_REPO/VP_OUT), leaving /repo and /verif's results alone.
patch=$(readlink -f "$1"); shift
S=$(mktemp -d /tmp/vp-seed.XXXXXX)
trap 'rm -rf "$S"' EXIT
rsync -a --exclude .git /repo/ "$S"/repo/
( cd "$S"/repo && patch -p1 --no-backup-if-mismatch < "$patch" > "$S"/patch.log 2>&1 ) || { echo "PATCH FAILED"; cat "$S"/patch.log; exit 3; }
for id in "$@"; do
  VP_REPO="$S"/repo VP_OUT="$S"/out "$(dirname "$0")"/check "$id" --tier quick $CHECK_ARGS > "$S"/$id.log 2>&1
  rc=$?
  echo "== $id rc=$rc: $(grep -a -c '^VIOLATION' "$S"/$id.log) violations, $(grep -a -c '^UNDECIDED' "$S"/$id.log) undecided"
  grep -a "solver refuted" "$S"/$id.log | sed 's/\[check\] solver refuted //' | cut -c1-220 | head -${SHOW:-6}
  grep -a "^UNDECIDED" "$S"/$id.log | cut -c1-200 | head -3
done
