#!/bin/bash
# developer helper: stop running check drivers and their solver processes
for p in $(pgrep -x python3); do
  if tr '\0' ' ' < /proc/$p/cmdline | grep -q "bin/check"; then kill $p; fi
done
pkill -x cbmc
exit 0
