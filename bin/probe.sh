#!/bin/bash
# probe.sh <out-prefix> <timeout> <unwind> <unwindset> -- <goto-cc args...>   : developer helper (not part of any check)
out=$1; to=$2; uw=$3; uws=$4; shift 5
mkdir -p /verif/build/t
goto-cc -I/repo -I/verif/harness -DHAVE_CONFIG_H -D__NO_CTYPE -DVERIF_CBMC "$@" /verif/harness/vp.c -o /verif/build/t/$out.gb --function harness || exit 1
goto-instrument --value-set-fi-fp-removal /verif/build/t/$out.gb /verif/build/t/$out.2.gb >/dev/null 2>&1
( time timeout $to cbmc /verif/build/t/$out.2.gb --unwind $uw ${uws:+--unwindset $uws} --unwinding-assertions --drop-unused-functions --no-malloc-may-fail --signed-overflow-check --undefined-shift-check --verbosity 8 > /verif/build/t/$out.log 2>&1 ) 2>&1 | grep real
grep -v "^Unwinding\|^Not unwind\|^\[" /verif/build/t/$out.log | grep -i "runtime sym\|runtime solver\|variables\|steps\|no body\|VERIFICATION" | awk '{a[$0]++} END{for(k in a) print a[k], k}' | sort -k2 | head -30
grep "FAILURE" /verif/build/t/$out.log | grep -v "COVER:" | head -40
echo "covers reached: $(grep FAILURE /verif/build/t/$out.log | grep -c COVER:) / $(grep -c 'COVER:' /verif/build/t/$out.log)"
