#!/bin/bash
# run_repo_tests.sh - the repository's own suite (make check) on a scratch copy of /repo's
# working tree, hooks off (there are none).  Prints the TAP summary; exit 0 iff all pass.
set -e
REPO=${VP_REPO:-/repo}
S=$(mktemp -d /tmp/vp-repo-tests.XXXXXX)
trap 'rm -rf "$S"' EXIT
rsync -a --exclude .git "$REPO"/ "$S"/repo/
cd "$S"/repo
make -s check > "$S"/log 2>&1 || { tail -40 "$S"/log; exit 1; }
grep -E "^# (TOTAL|PASS|FAIL|ERROR)" "$S"/log
grep -q "^# FAIL:  0" "$S"/log && grep -q "^# ERROR: 0" "$S"/log
