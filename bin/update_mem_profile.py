#!/usr/bin/env python3
"""update_mem_profile.py - record the peak memory of every solver query from the evidence files
(evidence/<ID>.json, field queries[].max_rss_mb) in harness/mem_profile.json; bin/check uses it
for admission control so that parallel queries stay inside the machine's memory."""
import glob
import json
import os

root = os.path.dirname(os.path.dirname(os.path.abspath(__file__)))
path = os.path.join(root, "harness", "mem_profile.json")
try:
    prof = json.load(open(path))
except Exception:
    prof = {}
for f in sorted(glob.glob(os.path.join(root, "evidence", "*.json"))):
    e = json.load(open(f))
    pid = e.get("property_id") or os.path.basename(f)[:-5]
    tier = e.get("tier", "quick")
    for q in e.get("coverage", {}).get("queries", []):
        mb = q.get("max_rss_mb")
        if mb:
            prof.setdefault(pid, {})["%s:%s" % (tier, q.get("query"))] = mb
json.dump(prof, open(path, "w"), indent=0, sort_keys=True)
print("mem_profile.json: %d properties, %d queries" % (len(prof), sum(len(v) for v in prof.values())))
