#!/bin/bash
# run_all.sh [tier] - every claimed check, one after the other (each uses all cores); summary at the end
cd "$(dirname "$0")/.."
tier=${1:-quick}
mkdir -p build/runall
for id in $(python3 -c "import json; print(' '.join(c['property_id'] for c in json.load(open('MANIFEST.json'))['checks']))"); do
  s=$(date +%s)
  bin/check $id --tier $tier > build/runall/$id.$tier.log 2>&1
  rc=$?
  echo "$id rc=$rc $(( $(date +%s) - s ))s $(grep -a -c '^VIOLATION' build/runall/$id.$tier.log) violations $(grep -a -c '^UNDECIDED' build/runall/$id.$tier.log) undecided"
done
