/* C08: arbitrary input lines cannot crash or derail the daemon.
 *
 * State: NREQ live requests built as in C_step.c (every field symbolic under inv()).
 * Input: ONE line through the real iauth_read() (id parse -> tokenizer with the 16-slot
 * argv -> lookup -> dispatch -> handlers).  The line's LAYOUT is concrete per query
 * (VP_TMPL, enumerated by the driver); its payload is symbolic:
 *      'c' a symbolic command byte (any non-blank, non-NUL byte)
 *      'a' a symbolic argument byte (any non-blank, non-NUL byte; ':' only inside a word)
 *      'd' a symbolic decimal digit
 *      anything else literally (blanks, the id, ':' ...)
 * -DL_EOF: end of input instead of a line.
 * Obligations: CBMC's memory-safety checks along the whole path (NULL/short argv, the
 * 16-slot vector, bounded copies), the line block is consumed, a line with an unknown id or
 * command letter changes nothing and prints nothing, every request still live satisfies
 * inv(), EOF requests a clean exit and changes nothing else.
 * irc_pton/irc_ntop are represented by their contracts (env/misc_stub.c): they are decided
 * for all inputs by C12/C13.
 * Real code: iauth_read and everything below it (modules/iauth_core.c, iauth_xquery.c, ...).
 */
#define VP_NO_EVENTS
#include "C_step.c"

static char line[96], line2[96];

static int known_cmd(char c)
{
    const char *k = "CDNdPUunHTEMXx?";
    for (; *k; k++)
        if (*k == c)
            return 1;
    return 0;
}

static int blank(char c) { return c == ' ' || (c >= '\t' && c <= '\r'); }

void harness(void)
{
    struct snap s0;
    unsigned n, i;
    char cmd = 0;
    int junk = 0, have_cmd = 0, id_known;

    build_state();
#if defined(VP_TMPL2) && defined(VP_FRESH)
    /* two-line layouts ask about the tokenizer (what the second line's handler is handed), not
     * about the request: the request is the concrete one an announcement leaves behind, so that
     * whatever the handler is handed is the only symbolic datum downstream */
    {
        struct iauth_request *r = R[0];
        struct iauth_xquery_client *c = CL[0];
        r->serial = 5; r->holds = 0; r->soft_holds = 0;
        r->flags.bits[0] = 0;
        r->state = 0;
        r->remote_port = 1000; r->local_port = 6667;
        r->hostname[0] = r->cli_username[0] = r->auth_username[0] = r->nickname[0] = r->realname[0] = '\0';
        r->account[0] = r->class[0] = '\0';
        r->text_addr[0] = '1'; r->text_addr[1] = '\0';
        c->sent_mask = c->ref_mask = c->more_mask = 0;
        c->password[0] = '\0';
        memset(&c->modes, 0, sizeof(c->modes));
    }
#endif
    memset(&O, 0, sizeof(O));
    take_snap(&s0, 0);
    iauth_in = evbuffer_new();

#if defined(L_EOF)
    vp_read_result = 0;
    iauth_read(0, EV_READ, iauth_in);
    VP_ASSERT(clean_exit == 1, "C08: end of input requests a clean exit");
    VP_ASSERT(vp_loopbreak == 1, "C08: end of input breaks the event loop");
    VP_ASSERT(vp_nline == 0 && live(0) && same_snap(&s0, 0), "C08: end of input changes nothing else");
    VP_COVER(clean_exit == 1, "EOF handled");
    VP_COVER(vp_loopbreak == 1, "loop break requested");
    (void)n; (void)i; (void)cmd; (void)junk; (void)have_cmd; (void)id_known;
#else
    {
        static const char tmpl[] = VP_TMPL;
        n = sizeof(tmpl) - 1;
        for (i = 0; i < n; i++) {
            char c = tmpl[i];
            if (c == 'c' || c == 'a') {
                char v = (char)vp_u8();
                VP_ASSUME(v != '\0' && v != '\n' && !blank(v));
                if (i > 0 && (tmpl[i - 1] == ' ' || tmpl[i - 1] == '\t'))
                    VP_ASSUME(v != ':');    /* a word starts here: the layout, not the payload, says where the trailing argument begins */
#ifdef VP_CMD
                /* the command letter is concrete per query (the driver enumerates the alphabet plus an
                 * unknown letter): one handler per query instead of fifteen in one formula */
                if (c == 'c') v = VP_CMD;
#endif
                if (c == 'c') {
                    VP_ASSUME(v != ':');
                    if (!have_cmd) { cmd = v; have_cmd = 1; }
                }
                c = v;
            } else if (c == 'd')
                c = (char)('0' + vp_range(0, 9));
            line[i] = c;
        }
        line[n] = '\0';
    }
    vp_in_lines[0] = line;
    vp_in_len[0] = n;
    vp_in_count = 1;
#ifdef VP_TMPL2
    {
        /* a second line delivered by the same read(): the tokenizer state of the first line
         * (argument vector, freed line block) must not leak into it */
        static const char tmpl2[] = VP_TMPL2;
        unsigned n2 = sizeof(tmpl2) - 1;
        for (i = 0; i < n2; i++) {
            char c = tmpl2[i];
            if (c == 'c' || c == 'a') {
                char v = (char)vp_u8();
                VP_ASSUME(v != '\0' && v != '\n' && !blank(v) && v != ':');
#ifdef VP_CMD2
                if (c == 'c') v = VP_CMD2;
#endif
                c = v;
            }
            line2[i] = c;
        }
        line2[n2] = '\0';
        vp_in_lines[1] = line2;
        vp_in_len[1] = n2;
        vp_in_count = 2;
    }
#endif
    vp_in_next = 0;
    vp_read_result = 1;

    iauth_read(0, EV_READ, iauth_in);

    VP_ASSERT(vp_in_next == vp_in_count, "C08: every line of the chunk was consumed");
    VP_ASSERT(!vp_rec_overflow, "environment: capture slots sufficient");
#ifdef VP_ID_LIVE
    id_known = 1;
#else
    id_known = 0;
#endif
    junk = have_cmd && !known_cmd(cmd);
#ifdef VP_TMPL2
    junk = 0;       /* two lines: memory safety and table well-formedness only */
#endif
#ifdef VP_ID_UNKNOWN
    junk = have_cmd && cmd != 'C';      /* an id nobody announced: everything but an announcement is dropped */
#endif
    if (junk) {
        VP_ASSERT(vp_nline == 0, "C08: a line with an unknown id or command prints nothing");
        VP_ASSERT(live(0) && same_snap(&s0, 0), "C08: a line with an unknown id or command changes nothing");
        VP_ASSERT(set_size(iauth_reqs) == NREQ, "C08: ... and leaves the table alone");
    }
    if (live(0) && !O.verdict[0]) {
        /* whatever the line did, hold accounting is still consistent for the survivor
         * (the ghost is re-read from the record; the step harness decides its exact evolution) */
        VP_ASSERT(R[0]->client == ID_A && !BITSET_GET(R[0]->flags, IAUTH_RESPONDED), "C08: a request left in the table is still a live one");
    }
    VP_ASSERT(set_size(iauth_reqs) <= NREQ + 1, "C08: the table stays well-formed");
    VP_COVER(junk, "opt: junk line");
#ifdef VP_ID_LIVE
    VP_COVER(!junk && !live(0), "opt: a line that ends the request (D, T or a verdict)");
    VP_COVER(!junk && live(0) && vp_nline > 0, "opt: a line that makes the daemon say something");
#endif
    (void)id_known;
    VP_COVER(1, "line processed");
#endif
}
