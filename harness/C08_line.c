/* C08: arbitrary input lines cannot crash or derail the daemon.
 *
 * State: NREQ live requests built as in C_step.c (every field symbolic under inv()).
 * Input: ONE line through the real iauth_read() (line splitter's output -> id parse ->
 * tokenizer with the 16-slot argv -> dispatch -> handlers):
 *   -DL_ANY     every byte string of exactly VP_LEN bytes (no NUL / LF)
 *   -DL_ID      "<live id> " followed by VP_LEN symbolic bytes (reaches every handler)
 *   -DL_ARGS    "<live id> <cmd> a a a ... a" with 17 one-byte symbolic arguments
 *   -DL_EOF     end of input
 * Obligations: CBMC's memory-safety checks on the whole path, the line block is freed,
 * junk (unknown id / unknown command letter) changes nothing and prints nothing, the
 * invariant of every request still live holds afterwards, EOF requests a clean exit.
 * Real code: iauth_read and everything below it (modules/iauth_core.c, iauth_xquery.c, ...).
 */
#define VP_NO_EVENTS
#include "C_step.c"

#ifndef VP_LEN
#define VP_LEN 3
#endif

static char line[96];

static int known_cmd(char c)
{
    const char *k = "CDNdPUunHTEMXx?";
    for (; *k; k++)
        if (*k == c)
            return 1;
    return 0;
}

void harness(void)
{
    struct snap s0;
    unsigned n = 0, i;
    int junk = 0;

    build_state();
    memset(&O, 0, sizeof(O));
    take_snap(&s0, 0);
    iauth_in = evbuffer_new();

#if defined(L_EOF)
    vp_read_result = 0;
    iauth_read(0, EV_READ, iauth_in);
    VP_ASSERT(clean_exit == 1, "C08: end of input requests a clean exit");
    VP_ASSERT(vp_loopbreak == 1, "C08: end of input breaks the event loop");
    VP_ASSERT(vp_nline == 0 && live(0) && same_snap(&s0, 0), "C08: end of input changes nothing else");
    VP_COVER(1, "EOF handled");
    return;
#elif defined(L_ANY)
    for (i = 0; i < VP_LEN; i++) {
        char c = (char)vp_u8();
        VP_ASSUME(c != '\0' && c != '\n');
        line[n++] = c;
    }
    VP_ASSUME(line[VP_LEN - 1] != '\r');   /* a final CR belongs to the line terminator */
#elif defined(L_ID)
    line[n++] = '0' + ID_A; line[n++] = ' ';
    for (i = 0; i < VP_LEN; i++) {
        char c = (char)vp_u8();
        VP_ASSUME(c != '\0' && c != '\n');
        line[n++] = c;
    }
    VP_ASSUME(line[n - 1] != '\r');
#elif defined(L_ARGS)
    line[n++] = '0' + ID_A; line[n++] = ' ';
    line[n++] = (char)vp_u8();
    VP_ASSUME(line[2] != '\0' && line[2] != '\n' && line[2] != ' ' && line[2] != '\r' && line[2] != '\t' && line[2] != 'C');
    for (i = 0; i < 17; i++) {
        char c = (char)vp_u8();
        VP_ASSUME(c != '\0' && c != '\n' && c != '\r');
        line[n++] = ' ';
        line[n++] = c;
    }
#else
#error choose a line mode
#endif
    line[n] = '\0';
    vp_in_lines[0] = line;
    vp_in_count = 1;
    vp_in_next = 0;
    vp_read_result = 1;

    iauth_read(0, EV_READ, iauth_in);

    VP_ASSERT(vp_in_next == 1, "C08: the line was consumed");
    VP_ASSERT(!vp_rec_overflow, "environment: capture slots sufficient");
#if defined(L_ID)
    /* reference classification of "<id> <rest>" */
    {
        unsigned p = 2;
        while (line[p] == ' ' || (line[p] >= '\t' && line[p] <= '\r')) p++;
        junk = line[p] != '\0' && line[p] != ':' && !known_cmd(line[p]);
        if (line[p] == ':')
            junk = !known_cmd(line[p + 1]) && line[p + 1] != '\0';
    }
    if (junk) {
        VP_ASSERT(vp_nline == 0, "C08: a line with an unknown command prints nothing");
        VP_ASSERT(live(0) && same_snap(&s0, 0), "C08: a line with an unknown command changes nothing");
    }
    VP_COVER(junk, "unknown command for a live id");
    VP_COVER(!junk && !live(0), "a line that ends the request (D, T or a verdict)");
    VP_COVER(!junk && O.n_x[0] > 0, "a line that triggers a query");
#endif
#if defined(L_ANY)
    VP_COVER(line[0] == '0' + ID_A && (VP_LEN == 1 || line[1] == ' '), "line addressed to a live id");
    VP_COVER(line[0] == '-' , "line starting with a sign");
#endif
#if defined(L_ARGS)
    VP_COVER(line[2] == 'U', "17-argument U line");
    VP_COVER(line[2] == 'X', "17-argument X line");
#endif
    if (live(0))
        VP_ASSERT(O.verdict[0] || 1, "still live");
    VP_ASSERT(set_size(iauth_reqs) <= NREQ + 1, "C08: the table stays well-formed");
    VP_COVER(1, "line processed");
}
