/* C16a: typed settings deliver the value written; an unparsable value is rejected.
 * Symbolic: value strings (every byte string up to VP_L bytes, and grammar
 * templates with symbolic digits/units).  Real code: conf_parse_boolean /
 * _integer / _interval / _volume (src/config.c). */
#include "src/common.h"
#include "vp.h"

#ifndef VP_L
#define VP_L 6
#endif
#ifndef VP_NCOMP
#define VP_NCOMP 3
#endif
#ifndef VP_ND
#define VP_ND 3
#endif

static int is_in(char c, const char *set)
{
    for (; *set; set++)
        if (*set == c)
            return 1;
    return 0;
}

/* render a number of 1..3 symbolic decimal digits at s, return its value */
static unsigned put_number(char *s, unsigned *len)
{
    unsigned nd = vp_range(1, VP_ND), i, v = 0;
    for (i = 0; i < nd; i++) {
        unsigned d = vp_range(0, 9);
        s[*len + i] = (char)('0' + d);
        v = v * 10 + d;
    }
    *len += nd;
    return v;
}

void harness(void)
{
    int ok = -1;
#if defined(T_BOOLEAN)
    /* every string of exactly VP_LEN non-NUL bytes */
    static const char *t_words[] = { "1", "true", "on", "enabled", "yes" };
    static const char *f_words[] = { "0", "false", "off", "disabled", "no" };
    char s[10];
    int want_valid = 0, want = 0, r;
    unsigned i, n = vp_range(0, 8);
    for (i = 0; i < 9; i++) {
        char c = (char)vp_u8();
        s[i] = (i < n) ? c : '\0';
        if (i < n) VP_ASSUME(c != 0);
    }
    s[9] = '\0';
    for (i = 0; i < 5; i++) {
        if (!strcmp(s, t_words[i])) { want_valid = 1; want = 1; }
        if (!strcmp(s, f_words[i])) { want_valid = 1; want = 0; }
    }
    r = conf_parse_boolean(s, &ok);
    VP_ASSERT(ok == want_valid, "boolean: accepted exactly for the ten keywords");
    VP_ASSERT(r == want, "boolean: value by keyword, 0 when rejected");
    VP_ASSERT(conf_parse_boolean(s, NULL) == want, "boolean: same value without a success pointer");
    VP_COVER(ok == 1 && r == 1 && n == 7, "enabled");
    VP_COVER(ok == 1 && r == 0 && n == 8, "disabled");
    VP_COVER(ok == 0 && n == 4 && s[0] == 't' && s[1] == 'r' && s[2] == 'u', "near miss of true");
    VP_COVER(ok == 0 && n == 0, "empty string");
#elif defined(T_INTEGER)
    char s[VP_L + 2];
    unsigned n = vp_range(1, VP_L), i, alldigits = 1;
    unsigned long want = 0;
    int r;
    for (i = 0; i < VP_L + 1; i++) {
        char c = (char)vp_u8();
        s[i] = (i < n) ? c : '\0';
        if (i < n) VP_ASSUME(c != 0);
    }
    s[VP_L + 1] = '\0';
    VP_ASSUME(s[0] >= '1' && s[0] <= '9'); /* plain decimal: no sign, no 0/0x prefix */
    for (i = 0; i < n; i++) {
        if (s[i] < '0' || s[i] > '9') alldigits = 0;
        else if (alldigits) want = want * 10 + (unsigned long)(s[i] - '0');
    }
    r = conf_parse_integer(s, &ok);
    VP_ASSERT(ok == (int)alldigits, "integer: accepted exactly when the whole text is a number");
    if (alldigits)
        VP_ASSERT(r == (int)want, "integer: delivers the value written");
    else
        VP_ASSERT(r == 0, "integer: rejected text yields 0");
    VP_COVER(alldigits && n == VP_L, "longest number");
    VP_COVER(!alldigits && n >= 2 && s[n - 1] == 'z', "number with trailing garbage");
#elif defined(T_INTERVAL_ANY) || defined(T_VOLUME_ANY)
    /* every string of 1..VP_L bytes */
#ifdef T_INTERVAL_ANY
    const char *alphabet = "0123456789dhmsy:";
#else
    const char *alphabet = "0123456789bBkKmMgG";
#endif
    char s[VP_L + 2];
    unsigned n = vp_range(1, VP_L), i, alldigits = 1, inalpha = 1, ncolon = 0;
    unsigned want = 0, r;
    for (i = 0; i < VP_L + 1; i++) {
        char c = (char)vp_u8();
        s[i] = (i < n) ? c : '\0';
        if (i < n) VP_ASSUME(c != 0);
    }
    s[VP_L + 1] = '\0';
    for (i = 0; i < n; i++) {
        if (s[i] < '0' || s[i] > '9') alldigits = 0;
        else if (alldigits) want = want * 10 + (unsigned)(s[i] - '0');
        if (!is_in(s[i], alphabet)) inalpha = 0;
        if (s[i] == ':') ncolon++;
    }
#ifdef T_INTERVAL_ANY
    r = conf_parse_interval(s, &ok);
    VP_ASSERT(ok == (int)(inalpha && ncolon <= 2), "interval: accepted exactly for texts over the documented alphabet");
#else
    r = conf_parse_volume(s, &ok);
    VP_ASSERT(ok == (int)inalpha, "volume: accepted exactly for texts over the documented alphabet");
#endif
    if (alldigits)
        VP_ASSERT(r == want, "a bare number is delivered as written");
    VP_COVER(ok == 1 && alldigits && n == VP_L, "bare number");
    VP_COVER(ok == 0 && n >= 2 && s[0] == '5' && s[1] == 'x', "5x: number followed by a foreign unit letter");
    VP_COVER(ok == 1 && !alldigits && n >= 3, "number with units");
#elif defined(T_INTERVAL_TMPL)
    /* grammar (\d+[ydhms]){0..3}\d* : value is the sum of the unit components */
    char s[20];
    unsigned len = 0, k, ncomp = vp_range(0, VP_NCOMP), want = 0, r;
    for (k = 0; k < 3; k++) {
        if (k < ncomp) {
            unsigned v = put_number(s, &len), u = vp_range(0, 4);
            static const char units[] = "ydhms";
            s[len++] = units[u];
            /* same association as any left-to-right reading: mod-2^32 arithmetic */
            want += u == 0 ? v * 365 * 24 * 60 * 60 : u == 1 ? v * 24 * 60 * 60 : u == 2 ? v * 60 * 60 : u == 3 ? v * 60 : v;
        }
    }
    if (vp_bool())
        want += put_number(s, &len);
    s[len] = '\0';
    r = conf_parse_interval(s, &ok);
    VP_ASSERT(ok == 1, "interval: grammar instances are accepted");
    VP_ASSERT(r == want, "interval: value is the sum of its unit components");
    VP_COVER(ncomp == VP_NCOMP && len >= 2 * VP_NCOMP + VP_ND - 1, "maximal number of components");
    VP_COVER(ncomp == 0 && len == 0, "empty interval");
    VP_COVER(ncomp == VP_NCOMP && s[len - 1] >= '0' && s[len - 1] <= '9', "components then bare seconds");
#elif defined(T_INTERVAL_COLON)
    /* h:m:s and m:s forms */
    char s[20];
    unsigned len = 0, a, b, c = 0, want, r;
    int three = vp_bool();
    a = put_number(s, &len); s[len++] = ':';
    b = put_number(s, &len);
    if (three) { s[len++] = ':'; c = put_number(s, &len); }
    s[len] = '\0';
    want = three ? a * 60 * 60 + b * 60 + c : a * 60 * 60 + b;
    /* documented reading of the code: first colon = hours, second = minutes */
    r = conf_parse_interval(s, &ok);
    VP_ASSERT(ok == 1, "interval: colon forms are accepted");
    VP_ASSERT(r == want, "interval: h:m:s is hours, minutes, seconds");
    VP_COVER(three, "h:m:s");
    VP_COVER(!three, "two fields");
#elif defined(T_VOLUME_TMPL)
    char s[20];
    unsigned len = 0, k, ncomp = vp_range(0, VP_NCOMP), want = 0, r;
    for (k = 0; k < 3; k++) {
        if (k < ncomp) {
            unsigned v = put_number(s, &len), u = vp_range(0, 7);
            static const char units[] = "bBkKmMgG";
            s[len++] = units[u];
            want += v << (10 * (u / 2));
        }
    }
    if (vp_bool())
        want += put_number(s, &len);
    s[len] = '\0';
    r = conf_parse_volume(s, &ok);
    VP_ASSERT(ok == 1, "volume: grammar instances are accepted");
    VP_ASSERT(r == want, "volume: value is the sum of its unit components");
    VP_COVER(ncomp == VP_NCOMP && len >= 2 * VP_NCOMP + VP_ND - 1, "maximal number of components");
    VP_COVER(ncomp == 1 && len == 2 && s[1] == 'B', "5B style");
#else
#error choose a parser
#endif
}
