/* C11b: the first rule, in vector order, all of whose present criteria the client satisfies
 * decides the class; no class when none matches; a pre-assigned class is left alone; a
 * matching rule with trust_username upgrades a ~ident to the client-supplied name.
 *
 * Symbolic: NRULES compiled rules - presence of every criterion, address and prefix length,
 * class present or not, trust_username; the client - address, account (with or without a
 * ':stamp' suffix), ident, pre-assigned class, xquery record (ok/ref/sent masks), two services.
 * fnmatch is UNINTERPRETED: an arbitrary but consistent verdict per (pattern, string), so the
 * result holds for every glob semantics; the oracle reads the verdicts the code was given.
 * Real code: iauth_class_assign, iauth_class_foreach_rule, iauth_class_rule_check
 * (modules/iauth_class.c), iauth_xreply_ok (iauth_xquery.c), irc_check_mask, strlcpy,
 * iauth_trust_username / iauth_send (iauth_core.c).
 */
#include "tu/iauth_all.c"
#include "env/iauth_env.h"
#include "vp.h"

#ifndef NRULES
#define NRULES 2
#endif

struct event_base *ev_base;
static unsigned n_U; static char U_name[16]; static int U_client;
void vp_on_line(const struct vp_line *l)
{
    if (l->has_req && l->cmd == 'U') {
        unsigned q; const char *s = l->body.nargs == 1 ? l->body.a[0].s : "";
        n_U++; U_client = l->client;
        for (q = 0; q < 15 && s[q]; q++) U_name[q] = s[q];
        U_name[q] = '\0';
    } else
        n_U += 100;     /* nothing else may be printed */
}

struct vp_srv_elt { struct iauth_xquery_service srv; char more[8]; };
static struct iauth_class_rule rules[3];
static char pat[3][4][2];       /* distinct pattern objects: [rule][account,username,hostname,xreply] */
static char rname[3][2], rclass[3][4];
static struct iauth_xquery_service *svc_vec[4];

static int lookup(const char *p)
{
    unsigned i;
    for (i = 0; i < vp_fn_n && i < VP_MAXFN; i++)
        if (vp_fn_tab[i].pat == p)
            return vp_fn_tab[i].res;
    return -1;
}
static const char *asked_string(const char *p)
{
    unsigned i;
    for (i = 0; i < vp_fn_n && i < VP_MAXFN; i++)
        if (vp_fn_tab[i].pat == p)
            return vp_fn_tab[i].copy;
    return NULL;
}

void harness(void)
{
    struct vp_req_elt *e = calloc(1, sizeof(*e));
    struct vp_cli_elt *ce = calloc(1, sizeof(*ce));
    struct iauth_request *r;
    struct iauth_xquery_client *c;
    char pre_class[8], acct_prefix[12];
    unsigned i, k, q, pre_assigned[3];
    int chosen = -1, xok[3], definite_miss[3], all_ok[3];
    irc_inaddr addr0;

    VP_ASSUME(e != NULL && ce != NULL);
    vp_rec_reset();
    r = &e->req; c = &ce->cli;
    iauth_reqs = malloc(sizeof(struct set)); VP_ASSUME(iauth_reqs != NULL);
    iauth_reqs->compare = set_compare_int; iauth_reqs->cleanup = NULL; iauth_reqs->root = NULL; iauth_reqs->count = 0;
    iauth_modules = malloc(sizeof(struct set)); VP_ASSUME(iauth_modules != NULL);
    iauth_modules->compare = set_compare_charp; iauth_modules->cleanup = NULL; iauth_modules->root = NULL; iauth_modules->count = 0;

    /* two services "a", "b" */
    for (k = 0; k < 2; k++) {
        struct vp_srv_elt *se = calloc(1, sizeof(*se));
        VP_ASSUME(se != NULL);
        se->srv.name[0] = (char)('a' + k);
        svc_vec[k] = vp_bool() ? &se->srv : NULL;
    }
    iauth_xquery_services.vec = svc_vec; iauth_xquery_services.used = 2; iauth_xquery_services.size = 4;

    /* the client */
    r->client = 7; r->serial = 3; r->remote_port = vp_u16();
    vp_bytes(&r->remote_addr, sizeof(r->remote_addr));
    addr0 = r->remote_addr;
    for (q = 0; q < 4; q++) { char ch = (char)vp_u8(); VP_ASSUME(ch != '\n' && ch != '\r'); r->account[q] = ch; }
    r->account[4] = '\0';
    for (q = 0; q < 3; q++) { char ch = (char)vp_u8(); VP_ASSUME(ch != '\n' && ch != '\r' && ch != ' '); r->auth_username[q] = ch; }
    for (q = 0; q < 3; q++) { char ch = (char)vp_u8(); VP_ASSUME(ch != '\n' && ch != '\r' && ch != ' '); r->cli_username[q] = ch; }
    r->hostname[0] = (char)vp_u8(); VP_ASSUME(r->hostname[0] != '\n' && r->hostname[0] != '\r');
    r->class[0] = vp_bool() ? 'Z' : '\0';
    r->text_addr[0] = '1';
    BITSET_SET(r->flags, IAUTH_GOT_IDENT);      /* acceptance implies the ident question is settled */
    r->data.compare = set_compare_voidp;
    c->key = &iauth_xquery;
    c->sent_mask = vp_range(0, 3); c->ref_mask = vp_range(0, 3); c->ok_mask = vp_range(0, 3);
    set_insert(&r->data, &ce->node);
    set_insert(iauth_reqs, &e->node);
    memcpy(pre_class, r->class, sizeof(pre_class));

    /* the compiled rule vector */
    for (i = 0; i < NRULES; i++) {
        rname[i][0] = (char)('p' + i);
        rules[i].name = rname[i];
        rclass[i][0] = 'c'; rclass[i][1] = (char)('0' + i);
        rules[i].class = vp_bool() ? rclass[i] : NULL;
        for (k = 0; k < 4; k++) pat[i][k][0] = '*';
        rules[i].account = vp_bool() ? pat[i][0] : NULL;
        rules[i].username = vp_bool() ? pat[i][1] : NULL;
        rules[i].hostname = vp_bool() ? pat[i][2] : NULL;
        if (vp_bool()) { pat[i][3][0] = (char)('a' + vp_range(0, 2)); rules[i].xreply_ok = pat[i][3]; }
        vp_bytes(&rules[i].address, sizeof(rules[i].address));
        rules[i].address_bits = vp_range(0, 128);
        rules[i].assigned = pre_assigned[i] = vp_range(0, 1000);
        rules[i].trust_username = vp_bool();
    }
    class_conf.rules.vec = rules; class_conf.rules.used = NRULES; class_conf.rules.size = 3;
    iauth_class.owner = "iauth_class";

    /* expected account string for the glob: up to the first ':' */
    for (q = 0; q < 11 && r->account[q] && r->account[q] != ':'; q++) acct_prefix[q] = r->account[q];
    acct_prefix[q] = '\0';
    for (i = 0; i < NRULES; i++)
        xok[i] = rules[i].xreply_ok ? iauth_xreply_ok(r, rules[i].xreply_ok) : 1;

    iauth_class_assign(r);      /* the pre_registered hook */

    VP_ASSERT(!vp_rec_overflow, "environment: capture slots sufficient");
    /* which rule claims to have assigned? */
    for (i = 0; i < NRULES; i++)
        if (rules[i].assigned != pre_assigned[i]) {
            VP_ASSERT(chosen < 0, "at most one rule counts the client");
            VP_ASSERT(rules[i].assigned == pre_assigned[i] + 1, "the deciding rule counts the client once");
            chosen = (int)i;
        }
    if (pre_class[0] != '\0') {
        VP_ASSERT(chosen < 0 && memcmp(pre_class, r->class, sizeof(pre_class)) == 0 && vp_fn_n == 0 && n_U == 0, "a pre-assigned class is left alone, no rule is evaluated");
    } else {
        for (i = 0; i < NRULES; i++) {
            int m_acct = rules[i].account ? lookup(rules[i].account) : 0;
            int m_user = rules[i].username ? lookup(rules[i].username) : 0;
            int m_host = rules[i].hostname ? lookup(rules[i].hostname) : 0;
            int m_addr = rules[i].address_bits ? !irc_check_mask(&addr0, &rules[i].address, rules[i].address_bits) : 0;
            int m_x = rules[i].xreply_ok ? !(xok[i] > 0) : 0;
            all_ok[i] = m_acct == 0 && m_user == 0 && m_host == 0 && m_addr == 0 && m_x == 0;
            definite_miss[i] = m_acct > 0 || m_user > 0 || m_host > 0 || m_addr || m_x;
        }
        for (i = 0; i < NRULES; i++) {
            if ((int)i == chosen)
                VP_ASSERT(all_ok[i], "the deciding rule has every present criterion satisfied (asked and matched)");
            else if (chosen < 0 || (int)i < chosen)
                VP_ASSERT(definite_miss[i], "every rule before the deciding one (all rules when none decides) fails one of its criteria");
            else
                VP_ASSERT(!(rules[i].account && lookup(rules[i].account) >= 0) && !(rules[i].username && lookup(rules[i].username) >= 0)
                          && !(rules[i].hostname && lookup(rules[i].hostname) >= 0), "rules after the deciding one are not evaluated");
            if (rules[i].account && lookup(rules[i].account) >= 0)
                VP_ASSERT(strcmp(asked_string(rules[i].account), acct_prefix) == 0, "the account glob is applied to the account without its :stamp suffix");
            if (rules[i].username && lookup(rules[i].username) >= 0)
                VP_ASSERT(strncmp(asked_string(rules[i].username), r->auth_username, 11) == 0, "the username glob is applied to the ident");
        }
        if (chosen >= 0) {
            const char *want = rules[chosen].class ? rules[chosen].class : rules[chosen].name;
            VP_ASSERT(strcmp(r->class, want) == 0, "the client gets the deciding rule's class value, else its name");
            if (rules[chosen].trust_username && r->auth_username[0] == '~') {
                VP_ASSERT(n_U == 1 && U_client == 7, "trust_username upgrades an untrusted ident with one U line to this client");
                VP_ASSERT(strcmp(U_name, r->cli_username[0] == '~' ? r->cli_username + 1 : r->cli_username) == 0, "the U line carries the client-supplied user name without a leading ~");
            } else
                VP_ASSERT(n_U == 0, "no U line otherwise");
        } else {
            VP_ASSERT(r->class[0] == '\0', "no class when no rule matches");
            VP_ASSERT(n_U == 0, "no U line when no rule matches");
        }
    }
    VP_ASSERT(memcmp(&r->remote_addr, &addr0, sizeof(addr0)) == 0 && r->client == 7, "the client's own data is untouched");
#if NRULES >= 2
    VP_COVER(chosen == 1, "second rule decides");
    VP_COVER(chosen == 0 && all_ok[1], "first of two matching rules decides");
#endif
    VP_COVER(chosen == 0 && rules[0].account && r->account[1] == ':', "account criterion with a stamped account");
    VP_COVER(chosen < 0 && pre_class[0] == '\0', "no rule matches");
    VP_COVER(chosen >= 0 && n_U == 1, "trust_username applied");
    VP_COVER(chosen == 0 && rules[0].xreply_ok && rules[0].address_bits == 17, "xreply_ok and a /17 mask both satisfied");
}
