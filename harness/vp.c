/* vp.c - implementation of the symbolic-input layer (see vp.h). */
#include "vp.h"

#ifdef REPLAY

#include <stdio.h>
#include <stdlib.h>
#include <string.h>

static FILE *vp_in;
static unsigned long vp_nread;

static void vp_open(void)
{
    const char *path;
    if (vp_in)
        return;
    path = getenv("VP_REPLAY_FILE");
    if (!path) {
        fprintf(stderr, "VP-REPLAY: VP_REPLAY_FILE not set\n");
        exit(79);
    }
    vp_in = fopen(path, "r");
    if (!vp_in) {
        fprintf(stderr, "VP-REPLAY: cannot open %s\n", path);
        exit(79);
    }
}

static uint64_t vp_next(void)
{
    char line[8192];
    vp_open();
    for (;;) {
        if (!fgets(line, sizeof(line), vp_in)) {
            /* The native run asked for more inputs than the solver's path
             * consumed: the native path diverged from the symbolic one. */
            fprintf(stderr, "VP-REPLAY: input trace exhausted after %lu values\n", vp_nread);
            fflush(NULL);
            _Exit(78);
        }
        if (line[0] == '#' || line[0] == '\n') {
            /* a comment line longer than the buffer continues in the next chunk(s) */
            while (!strchr(line, '\n') && fgets(line, sizeof(line), vp_in)) {}
            continue;
        }
        vp_nread++;
        return strtoull(line, NULL, 0);
    }
}

void vp_fail(const char *msg, const char *file, int line)
{
    fflush(NULL);
    fprintf(stderr, "VP-REPLAY: ASSERTION FAILED: %s (%s:%d)\n", msg, file, line);
    fflush(NULL);
    _Exit(1);
}

void vp_infeasible(const char *what, const char *file, int line)
{
    fflush(NULL);
    fprintf(stderr, "VP-REPLAY: assumption not met natively: %s (%s:%d)\n", what, file, line);
    fflush(NULL);
    _Exit(77);
}

void vp_cover_hit(const char *msg)
{
    fprintf(stderr, "VP-REPLAY: COVER HIT: %s\n", msg);
}

void vp_oracle_mismatch(const char *msg)
{
    fprintf(stderr, "VP-REPLAY: ORACLE-MISMATCH: %s\n", msg);
}

uint8_t vp_u8(void) { return (uint8_t)vp_next(); }
uint16_t vp_u16(void) { return (uint16_t)vp_next(); }
uint32_t vp_u32(void) { return (uint32_t)vp_next(); }
uint64_t vp_u64(void) { return (uint64_t)vp_next(); }
int32_t vp_i32(void) { return (int32_t)(uint32_t)vp_next(); }
int vp_bool(void) { return vp_next() != 0; }

extern void harness(void);
int main(void)
{
    harness();
    fflush(NULL);
    fprintf(stderr, "VP-REPLAY: harness completed without failure\n");
    return 0;
}

#else

uint8_t nondet_u8(void);
uint16_t nondet_u16(void);
uint32_t nondet_u32(void);
uint64_t nondet_u64(void);

/* The local is always called vp_val: the driver extracts the assignments to
 * `vp_val` inside functions named vp_* from the solver's trace. */
uint8_t vp_u8(void) { uint8_t vp_val = nondet_u8(); return vp_val; }
uint16_t vp_u16(void) { uint16_t vp_val = nondet_u16(); return vp_val; }
uint32_t vp_u32(void) { uint32_t vp_val = nondet_u32(); return vp_val; }
uint64_t vp_u64(void) { uint64_t vp_val = nondet_u64(); return vp_val; }
int32_t vp_i32(void) { uint32_t vp_val = nondet_u32(); return (int32_t)vp_val; }
int vp_bool(void) { uint8_t vp_val = nondet_u8(); __CPROVER_assume(vp_val <= 1); return vp_val; }

#endif

void vp_bytes(void *buf, size_t n)
{
    uint8_t *p = buf;
    size_t i;
    for (i = 0; i < n; i++)
        p[i] = vp_u8();
}

void vp_str(char *buf, size_t n)
{
    size_t i;
    for (i = 0; i < n; i++) {
        uint8_t c = vp_u8();
        VP_ASSUME(c != 0);
        buf[i] = (char)c;
    }
    buf[n] = '\0';
}

uint32_t vp_range(uint32_t lo, uint32_t hi)
{
    uint32_t v = vp_u32();
    VP_ASSUME(v >= lo && v <= hi);
    return v;
}
