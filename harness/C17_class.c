/* C17 (class rules): after a reload the compiled rule vector of iauth_class is that of the
 * NEW file - rules added, removed, or edited in place (a criterion or the class value changed,
 * added to or dropped from an existing rule).
 *
 * Start-up: first file merged (real conf_replace_value), then the real iauth_class constructor;
 * reload: second file merged; the module hears whatever the real merge tells it.  Afterwards
 * conf.rules must equal compile(second file): rule names in order, class value (else NULL),
 * account pattern (else NULL), trust_username.
 * Which rules / which criteria each file holds is concrete per query (driver: edit kinds);
 * the VALUES (class names, patterns, the boolean word) are symbolic choices.
 * Real code: conf_replace_value & friends (src/config.c), iauth_class_conf_changed and the
 * constructor (modules/iauth_class.c), conf_get_child, conf_parse_boolean.
 */
#include "tu/config_tu.c"
#include "tu/iauth_all.c"
#include "env/iauth_env.h"
#include "vp.h"

extern struct event_base *ev_base;
void vp_on_line(const struct vp_line *l) { (void)l; }

static const char *const rname[2] = { "p", "q" };
struct rule_desc { int present, has_class, has_account, has_trust; unsigned cls, acct, trust; };

static char *one(char c)
{
    char *p = malloc(2);
    VP_ASSUME(p != NULL);
    p[0] = c; p[1] = '\0';
    return p;
}

static char *boolword(unsigned t)
{
    /* "yes" / "no " style words of concrete size: t=0 "no", t=1 "yes", t=2 "pizza" (invalid) */
    char *p = malloc(6);
    static const char *const w[3] = { "no", "yes", "pizza" };
    unsigned i;
    VP_ASSUME(p != NULL);
    for (i = 0; i < 6; i++) p[i] = i < strlen(w[t]) ? w[t][i] : '\0';
    return p;
}

static void init_root(struct conf_node_object *o)
{
    memset(o, 0, sizeof(*o));
    o->base.name = "";
    o->base.type = CONF_OBJECT;
    o->base.specified = 1;
    o->base.present = 1;
    o->contents.compare = conf_object_cmp;
    o->contents.cleanup = conf_object_cleanup;
}

static void add_str(struct conf_node_object *obj, const char *name, char *value)
{
    struct conf_node_string *s = conf_parse_get_child(obj, xstrdup(name), CONF_STRING, sizeof(*s));
    xfree(s->value);
    s->value = value;
}

static void load(const struct rule_desc d[2])
{
    struct conf_node_object scratch, *sec;
    unsigned k;
    init_root(&scratch);
    sec = conf_parse_get_child(&scratch, xstrdup("iauth_class"), CONF_OBJECT, sizeof(*sec));
    sec->contents.compare = conf_object_cmp;
    sec->contents.cleanup = conf_object_cleanup;
    for (k = 0; k < 2; k++)
        if (d[k].present) {
            struct conf_node_object *r = conf_parse_get_child(sec, xstrdup(rname[k]), CONF_OBJECT, sizeof(*r));
            r->contents.compare = conf_object_cmp;
            r->contents.cleanup = conf_object_cleanup;
            if (d[k].has_class) add_str(r, "class", one((char)('A' + d[k].cls)));
            if (d[k].has_account) add_str(r, "account", one((char)('s' + d[k].acct)));
            if (d[k].has_trust) add_str(r, "trust_username", boolword(d[k].trust));
        }
    conf_replace_value(&conf_root.base, &scratch.base);
    set_clear(&scratch.contents, 0);
}

static void check_rules(const struct rule_desc d[2])
{
    unsigned k, n = 0;
    for (k = 0; k < 2; k++)
        if (d[k].present) {
            const struct iauth_class_rule *r;
            VP_ASSERT(n < class_conf.rules.used, "every rule of the current file is compiled");
            if (n >= class_conf.rules.used)
                return;
            r = &class_conf.rules.vec[n++];
            VP_ASSERT(strcmp(r->name, rname[k]) == 0, "rules are compiled in name order");
            VP_ASSERT((r->class != NULL) == (d[k].has_class != 0), "a rule has a class value exactly when the current file gives one");
            if (r->class && d[k].has_class)
                VP_ASSERT(r->class[0] == (char)('A' + d[k].cls) && r->class[1] == '\0', "the class value is the current file's");
            VP_ASSERT((r->account != NULL) == (d[k].has_account != 0), "a rule has an account criterion exactly when the current file gives one");
            if (r->account && d[k].has_account)
                VP_ASSERT(r->account[0] == (char)('s' + d[k].acct), "the account pattern is the current file's");
            VP_ASSERT(r->trust_username == (d[k].has_trust && d[k].trust == 1), "trust_username follows the current file");
        }
    VP_ASSERT(class_conf.rules.used == n, "no rule that the current file lacks is applied");
}

static void choose(struct rule_desc *d, unsigned presence)
{
    /* presence bits: 1 rule present, 2 class, 4 account, 8 trust_username */
    d->present = presence & 1; d->has_class = (presence >> 1) & 1; d->has_account = (presence >> 2) & 1; d->has_trust = (presence >> 3) & 1;
    d->cls = vp_range(0, 1); d->acct = vp_range(0, 1); d->trust = vp_range(0, 2);
}

void harness(void)
{
    struct rule_desc d0[2], d1[2];
    choose(&d0[0], VP_R0 & 15); choose(&d0[1], (VP_R0 >> 4) & 15);
    choose(&d1[0], VP_R1 & 15); choose(&d1[1], (VP_R1 >> 4) & 15);

    conf_get_root();
    iauth_modules = malloc(sizeof(struct set));
    VP_ASSUME(iauth_modules != NULL);
    iauth_modules->compare = set_compare_charp; iauth_modules->cleanup = NULL; iauth_modules->root = NULL; iauth_modules->count = 0;

    load(d0);
    class_module_constructor("iauth_class");
    check_rules(d0);
    load(d1);
    check_rules(d1);

    VP_COVER(d0[0].cls != d1[0].cls, "class value of rule p differs between the files");
    VP_COVER(d0[0].cls == d1[0].cls && d0[0].acct == d1[0].acct && d0[0].trust == d1[0].trust, "same values in both files");
    VP_COVER(d1[0].trust == 2, "unparsable boolean word");
}
