/* C16 (layout): conf_parse_whitespace() on EVERY byte string of VP_LEN bytes.
 *
 * "Arbitrary whitespace, C and C++ comments" must not change what is read: the skipper has to
 * stop exactly at the first byte that is neither white space nor inside a comment, for every
 * text.  Reference: ref_skip() below, written from the documented syntax (white space; a C
 * comment ends at the first following star-slash; a C++ comment ends before the next newline; an
 * unterminated comment swallows the rest; with care_eof a newline outside a C comment is
 * itself reported).  SYMBOLIC: every byte of the text, and care_eof.
 * Obligations: the byte reported and the cursor are the reference's; the cursor stays inside
 * the text (and CBMC's bounds obligations in the real code); line counting: line_num - 1 is the
 * number of newlines passed.
 * Real code: conf_parse_whitespace (src/config.c).
 */
#define VP_MODEL_LONGJMP
#define VP_NO_READ_TAIL
#include "tu/config_tu.c"
#include "vp.h"

#ifndef VP_LEN
#define VP_LEN 5
#endif

static char text[VP_LEN + 1];

#ifndef REPLAY
void vp_on_parse_error(int code) { (void)code; VP_ASSERT(0, "the white space skipper raises no error"); }
#endif

static int ref_space(char c) { return c == ' ' || c == '\t' || c == '\n' || c == '\v' || c == '\f' || c == '\r'; }

/* index of the byte that is reported (n: end of text reached) */
static unsigned ref_skip(const char *s, unsigned n, int care_eof)
{
    unsigned k = 0, j, guard;
    for (guard = 0; guard <= VP_LEN; guard++) {
        if (k >= n)
            return n;
        if (s[k] == '\n' && care_eof)
            return k;
        if (ref_space(s[k])) {
            k++;
        } else if (s[k] == '/' && k + 1 < n && s[k + 1] == '*') {
            for (j = k + 2; j + 1 < n && !(s[j] == '*' && s[j + 1] == '/'); j++)
                ;
            if (j + 1 >= n)
                return n;
            k = j + 2;
        } else if (s[k] == '/' && k + 1 < n && s[k + 1] == '/') {
            for (j = k + 2; j < n && s[j] != '\n'; j++)
                ;
            k = j;
        } else
            return k;
    }
    return n;
}

void harness(void)
{
    struct conf_parse parse;
    unsigned i, first, nl = 0;
    int care_eof = vp_bool(), ch;

    ctype_init();
    for (i = 0; i < VP_LEN; i++) {
        char c = (char)vp_u8();
        VP_ASSUME(c != '\0');
        text[i] = c;
    }
    text[VP_LEN] = '\0';
    memset(&parse, 0, sizeof(parse));
    parse.data = parse.curr = parse.line_start = text;
    parse.line_num = 1;
    first = ref_skip(text, VP_LEN, care_eof);

    ch = conf_parse_whitespace(&parse, care_eof);

    VP_ASSERT(parse.curr >= text && parse.curr <= text + VP_LEN, "the cursor stays inside the text");
    if (first == VP_LEN) {
        VP_ASSERT(ch == '\0', "C16: a text of white space and comments only is skipped to its end");
        VP_ASSERT(parse.curr == text + VP_LEN, "C16: ... with the cursor at the end");
    } else {
        VP_ASSERT(ch == (unsigned char)text[first] || ch == text[first], "C16: white space and comments are skipped and nothing else: the first byte after them is reported");
        VP_ASSERT(parse.curr == text + first + 1, "C16: ... with the cursor just after it");
    }
    for (i = 0; i < VP_LEN; i++)
        if (text + i < parse.curr && text[i] == '\n')
            nl++;
    VP_ASSERT(parse.line_num == 1 + nl, "the line counter is the number of newlines passed");
#if VP_LEN >= 5
    VP_COVER(first < VP_LEN && first >= 4, "something after a complete comment");
#else
    VP_COVER(first < VP_LEN && first >= 1, "something after white space");
#endif
    VP_COVER(first == VP_LEN && text[0] == '/', "opt: unterminated comment");
    VP_COVER(care_eof && first < VP_LEN && text[first] == '\n', "opt: newline reported");
}
