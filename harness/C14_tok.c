/* C14a / C16b (tokenizer level): conf_parse_string() on EVERY byte string of VP_LEN bytes.
 *
 * The string tokenizer holds all the byte-level arithmetic of the parser: white space and
 * both comment styles (conf_parse_whitespace), the two-pass scan of a quoted string that
 * sizes its buffer before decoding escapes, \xHH, barewords.
 * Obligations: terminates inside the bounds (unwinding assertions), no memory-safety
 * obligation fails (buffer sizing vs. decoding), the cursor stays inside the text, a returned
 * token is NUL-terminated and - for a text that is exactly one quoted string of the
 * documented escapes - decodes to what a reference decoder yields (C16: strings byte for
 * byte, escapes); an unterminated quote is reported as premature EOF.
 * Real code: conf_parse_string, conf_parse_whitespace (src/config.c), char_vector_append.
 */
#define VP_MODEL_LONGJMP
#define VP_NO_READ_TAIL      /* conf_parse_string() is called directly: no conf_read() frame to unwind */
#include "tu/config_tu.c"
#include "vp.h"

#ifndef VP_LEN
#define VP_LEN 4
#endif

static char text[VP_LEN + 1];
static int jumped;

#ifndef REPLAY
void vp_on_parse_error(int code)
{
    /* conf_parse_string() raises only these two */
    VP_ASSERT(code == PARSE_PREMATURE_EOF || code == PARSE_EXPECTED_STRING, "a tokenizer error is one of the documented kinds");
    VP_COVER(code == PARSE_PREMATURE_EOF, "opt: unterminated quoted string reported");
    VP_COVER(code == PARSE_EXPECTED_STRING, "opt: non-token character reported");
    jumped = 1;
}
#endif

/* reference decoder for a text that is exactly  "<body>"  */
static int ref_decode(const char *s, unsigned n, char *out, unsigned *outlen)
{
    unsigned i = 1, o = 0;
    if (n < 2 || s[0] != '"')
        return 0;
    while (i < n && s[i] != '"') {
        char c = s[i];
        if (c == '\\') {
            char e;
            if (i + 1 >= n) return 0;
            e = s[i + 1];
            i += 2;
            switch (e) {
            case 'a': out[o++] = '\a'; break;
            case 'b': out[o++] = '\b'; break;
            case 'f': out[o++] = '\f'; break;
            case 'n': out[o++] = '\n'; break;
            case 'r': out[o++] = '\r'; break;
            case 't': out[o++] = '\t'; break;
            case 'v': out[o++] = '\v'; break;
            case 'x': return 0;             /* \x: checked separately (hex templates) */
            default: out[o++] = e; break;
            }
        } else {
            out[o++] = c;
            i++;
        }
    }
    if (i != n - 1)
        return 0;                           /* the closing quote must be the last byte */
    *outlen = o;
    return 1;
}

/* reference for white space and comments: index of the first byte that is neither white
 * space nor inside a comment (n: there is none; an unterminated comment swallows the rest) */
static int ref_space(char c) { return c == ' ' || c == '\t' || c == '\n' || c == '\v' || c == '\f' || c == '\r'; }
static unsigned ref_skip(const char *s, unsigned n)
{
    unsigned k = 0, j, guard;
    for (guard = 0; guard <= VP_LEN; guard++) {
        if (k >= n)
            return n;
        if (ref_space(s[k])) {
            k++;
        } else if (s[k] == '/' && k + 1 < n && s[k + 1] == '*') {
            for (j = k + 2; j + 1 < n && !(s[j] == '*' && s[j + 1] == '/'); j++)
                ;
            if (j + 1 >= n)
                return n;
            k = j + 2;
        } else if (s[k] == '/' && k + 1 < n && s[k + 1] == '/') {
            for (j = k + 2; j < n && s[j] != '\n'; j++)
                ;
            k = j;
        } else
            return k;
    }
    return n;
}

void harness(void)
{
    struct conf_parse parse;
    char want[VP_LEN + 1];
    unsigned wl = 0, i, first;
    char *tok;
    int simple;

    ctype_init();
    for (i = 0; i < VP_LEN; i++) {
        char c = (char)vp_u8();
        VP_ASSUME(c != '\0');
        text[i] = c;
    }
    text[VP_LEN] = '\0';
    first = ref_skip(text, VP_LEN);
    memset(&parse, 0, sizeof(parse));
    parse.data = parse.curr = parse.line_start = text;
    parse.line_num = 1;
    simple = ref_decode(text, VP_LEN, want, &wl);

#ifdef REPLAY
    {
        int code = setjmp(parse.env);
        if (code) {
            /* natively the real longjmp lands here */
            VP_ASSERT(code == PARSE_PREMATURE_EOF || code == PARSE_EXPECTED_STRING, "a tokenizer error is one of the documented kinds");
            VP_COVER(code == PARSE_PREMATURE_EOF, "opt: unterminated quoted string reported");
            VP_COVER(code == PARSE_EXPECTED_STRING, "opt: non-token character reported");
            return;
        }
    }
#endif
    tok = conf_parse_string(&parse);

    VP_ASSERT(parse.curr >= text && parse.curr <= text + VP_LEN, "the cursor stays inside the text");
    if (first == VP_LEN)
        VP_ASSERT(tok == NULL, "C16: a text of white space and comments only holds no token");
    else if ((text[first] >= 'a' && text[first] <= 'z') || (text[first] >= 'A' && text[first] <= 'Z') || (text[first] >= '0' && text[first] <= '9'))
        VP_ASSERT(tok != NULL && tok[0] == text[first], "C16: white space and comments are skipped and nothing else: the token starts at the first byte after them");
    if (tok) {
        unsigned tl = 0;
        while (tl <= VP_LEN && tok[tl] != '\0')
            tl++;
        VP_ASSERT(tl <= VP_LEN, "a token is NUL-terminated and no longer than the text");
        if (simple) {
            VP_ASSERT(tl == wl, "a quoted string decodes to the documented length");
            for (i = 0; i < VP_LEN; i++)
                if (i < wl)
                    VP_ASSERT(tok[i] == want[i], "a quoted string is read back byte for byte, escapes decoded");
            VP_ASSERT(parse.curr == text + VP_LEN, "the whole quoted string is consumed");
        }
        xfree(tok);
    } else
        VP_ASSERT(!simple, "a complete quoted string is not mistaken for end of input");
    VP_COVER(tok != NULL && simple && wl == VP_LEN - 2, "opt: quoted string without escapes");
    VP_COVER(tok != NULL && simple && wl < VP_LEN - 2, "opt: quoted string with an escape");
    VP_COVER(tok != NULL && !simple && text[0] != '"', "opt: bareword or token after white space / comment");
    VP_COVER(tok == NULL, "opt: only white space and comments");
}
