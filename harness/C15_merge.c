/* C15: reload is deterministic - after a successful load every registered setting has the
 * file's value or its default, unregistered leftovers are gone, the same content twice
 * changes nothing and notifies nobody, hooks run exactly for changed values / membership.
 *
 * Universe (names x kinds): strings "a", "b"; list "l"; host/service pair "i"; object "o"
 * holding a string "a".  Two (VP_LOADS) successive files are chosen SYMBOLICALLY: for every
 * node, present or not and which of two candidate values.  Each file is materialised as a
 * scratch tree with the real conf_parse_get_child() exactly as the parser does, and merged
 * with the real conf_replace_value(&conf_root, &scratch) followed by the scratch set_clear(),
 * i.e. the tail of conf_read() (the parser itself is the subject of C14/C16).
 * A symbolic subset of nodes is registered (with a default and a counting hook) before the
 * first load, between the loads, or not at all.
 * Ownership (values moved between the trees) is checked by CBMC's deallocated-object and
 * double-free obligations.
 * Real code: conf_replace_value, conf_parse_string_value, conf_set_string_list_value,
 * conf_register_*, conf_parse_get_child, conf_object_cleanup (src/config.c), set.c, vectors.
 */
#define VP_HAVE_CONFIG
#include "tu/config_tu.c"
#include "vp.h"

#ifndef VP_LOADS
#define VP_LOADS 2
#endif

enum { N_A, N_B, N_L, N_I, N_O, N_OA, N_NUM };
static const char *const nm[N_NUM] = { "a", "b", "l", "i", "o", "a" };
static const char *const cand[3] = { "x", "y", "d" };   /* the third candidate spells out the default */
/* a value string of concrete size whose content is the chosen candidate (strdup of a
 * symbolically chosen literal would give CBMC an allocation of symbolic size) */
static char *mkval(int which)
{
    char *p = malloc(2);
    VP_ASSUME(p != NULL);
    p[0] = which == 0 ? 'x' : which == 1 ? 'y' : 'd';
    p[1] = '\0';
    return p;
}
static const char *const dflt = "d";

struct filedesc { int present[N_NUM]; int val[N_NUM]; };

static unsigned hook_calls[N_NUM];
static struct conf_node_base *reg[N_NUM];     /* registered nodes (NULL: not registered) */
static int reg_when[N_NUM];                   /* 0 never, 1 before load 1, 2 before load 2 */

#define HOOK(I) static void hook_##I(struct conf_node_base *n) { (void)n; hook_calls[I]++; }
HOOK(0) HOOK(1) HOOK(2) HOOK(3) HOOK(4) HOOK(5)
static conf_update_hook_f *const hooks[N_NUM] = { hook_0, hook_1, hook_2, hook_3, hook_4, hook_5 };

static void choose_file(struct filedesc *f, unsigned mask)
{
    int i;
    for (i = 0; i < N_NUM; i++) {
#ifdef VP_P0
        /* presence is concrete per query (the driver enumerates scenarios): the shape of both
         * trees, and with it every node pointer, stays concrete for the symbolic execution */
        f->present[i] = (mask >> i) & 1;
#else
        f->present[i] = vp_bool();
#endif
        f->val[i] = (int)vp_range(0, 2);
    }
    (void)mask;
#ifndef WITH_INADDR
    f->present[N_I] = 0;
#endif
#ifndef WITH_LIST
    f->present[N_L] = 0;
#endif
#ifndef WITH_B
    f->present[N_B] = 0;
#endif
#ifndef WITH_OBJ
    f->present[N_O] = 0;
#endif
    if (!f->present[N_O])
        f->present[N_OA] = 0;
}

/* what the parser does for each entry of the file, in file order */
static void build_scratch(struct conf_node_object *root, const struct filedesc *f)
{
    memset(root, 0, sizeof(*root));
    root->base.name = "";
    root->base.type = CONF_OBJECT;
    root->base.specified = 1;
    root->base.present = 1;
    root->contents.compare = conf_object_cmp;
    root->contents.cleanup = conf_object_cleanup;
    if (f->present[N_A]) {
        struct conf_node_string *s = conf_parse_get_child(root, xstrdup("a"), CONF_STRING, sizeof(*s));
        xfree(s->value); s->value = mkval(f->val[N_A]);
    }
    if (f->present[N_B]) {
        struct conf_node_string *s = conf_parse_get_child(root, xstrdup("b"), CONF_STRING, sizeof(*s));
        xfree(s->value); s->value = mkval(f->val[N_B]);
    }
#ifdef WITH_LIST
    if (f->present[N_L]) {
        struct conf_node_string_list *l = conf_parse_get_child(root, xstrdup("l"), CONF_STRING_LIST, sizeof(*l));
        struct string_vector nv;
        memset(&nv, 0, sizeof(nv));
        string_vector_append(&nv, mkval(f->val[N_L]));
        string_vector_append(&nv, xstrdup("z"));
        conf_set_string_list_value(l, &nv);
        string_vector_clear_int(&nv);
    }
#endif
#ifdef WITH_INADDR
    if (f->present[N_I]) {
        struct conf_node_inaddr *n = conf_parse_get_child(root, xstrdup("i"), CONF_INADDR, sizeof(*n));
        xfree(n->hostname); xfree(n->service);
        n->hostname = mkval(f->val[N_I]); n->service = xstrdup("80");
    }
#endif
    if (f->present[N_O]) {
        struct conf_node_object *o = conf_parse_get_child(root, xstrdup("o"), CONF_OBJECT, sizeof(*o));
        o->contents.compare = conf_object_cmp;
        o->contents.cleanup = conf_object_cleanup;
        if (f->present[N_OA]) {
            struct conf_node_string *s = conf_parse_get_child(o, xstrdup("a"), CONF_STRING, sizeof(*s));
            xfree(s->value); s->value = mkval(f->val[N_OA]);
        }
    }
}

static void do_register(int when)
{
    int i;
    for (i = 0; i < N_NUM; i++) {
        if (reg_when[i] != when)
            continue;
        switch (i) {
        case N_A: case N_B:
            reg[i] = &conf_register_string(NULL, CONF_STRING_PLAIN, nm[i], dflt)->base; break;
        case N_L:
#ifdef WITH_LIST
            reg[i] = &conf_register_string_list(NULL, "l", dflt, NULL)->base;
#endif
            break;
        case N_I:
#ifdef WITH_INADDR
            reg[i] = &conf_register_inaddr(NULL, "i", dflt, "1")->base;
#endif
            break;
        case N_O:
            reg[i] = &conf_register_object(NULL, "o")->base; break;
        case N_OA:
            if (reg[N_O])
                reg[i] = &conf_register_string((struct conf_node_object *)reg[N_O], CONF_STRING_PLAIN, "a", dflt)->base;
            break;
        }
        if (reg[i])
            reg[i]->hook = hooks[i];
    }
}

/* effective string value of node i in the live tree, NULL if the node does not exist */
static const char *live_string(int i, int *exists)
{
    struct conf_node_object *parent = &conf_root;
    struct conf_node_string *s;
    *exists = 0;
    if (i == N_OA) {
        parent = conf_get_child(&conf_root, "o", CONF_OBJECT);
        if (!parent)
            return NULL;
    }
    s = conf_get_child(parent, nm[i], CONF_STRING);
    if (!s)
        return NULL;
    *exists = 1;
    return s->value;
}

static int streq(const char *a, const char *b) { return (a == NULL || b == NULL) ? a == b : strcmp(a, b) == 0; }

void harness(void)
{
    struct filedesc f[VP_LOADS];
    struct conf_node_object scratch;
    const char *before[N_NUM]; int existed[N_NUM];
    unsigned calls0[N_NUM];
    int i, k;

    conf_get_root();            /* config_init() */
#ifndef VP_P0
#define VP_P0 0
#define VP_P1 0
#endif
    choose_file(&f[0], VP_P0);
    choose_file(&f[1], VP_P1);
#ifdef SAME_TWICE
    f[1] = f[0];
#endif
    for (i = 0; i < N_NUM; i++)
#ifdef VP_REG
        reg_when[i] = (VP_REG >> (2 * i)) & 3;
#else
        reg_when[i] = (int)vp_range(0, 2);
#endif
#ifndef WITH_INADDR
    reg_when[N_I] = 0;
#endif
#ifndef WITH_LIST
    reg_when[N_L] = 0;
#endif
#ifndef WITH_B
    reg_when[N_B] = 0;
#endif
#ifndef WITH_OBJ
    reg_when[N_O] = 0; reg_when[N_OA] = 0;
#endif
    VP_ASSUME(reg_when[N_OA] == 0 || (reg_when[N_O] != 0 && reg_when[N_O] <= reg_when[N_OA]));

    for (k = 0; k < VP_LOADS; k++) {
        do_register(k + 1);
        for (i = 0; i < N_NUM; i++) {
            calls0[i] = hook_calls[i];
            before[i] = NULL; existed[i] = 0;
            if (i == N_A || i == N_B || i == N_OA) {
                const char *v = live_string(i, &existed[i]);
                before[i] = v ? (v[0] == 'd' ? "d" : v[0] == 'y' ? "y" : "x") : NULL;
            }
        }
        build_scratch(&scratch, &f[k]);
        conf_replace_value(&conf_root.base, &scratch.base);
        set_clear(&scratch.contents, 0);

        /* ---- after load k ---- */
        for (i = 0; i < N_NUM; i++) {
            int in_file = f[k].present[i], exists = 0, registered = reg[i] != NULL;
            if (i == N_A || i == N_B || i == N_OA) {
                const char *v = live_string(i, &exists);
                const char *want = in_file ? cand[f[k].val[i]] : registered ? dflt : NULL;
                int obj_gone = (i == N_OA) && !(f[k].present[N_O] || reg[N_O] != NULL);
                if (obj_gone) {
                    VP_ASSERT(!exists, "an unregistered object absent from the file is gone with its contents");
                } else {
                    VP_ASSERT(exists == (in_file || registered), "a node exists exactly when the last file names it or code registered it");
                    if (exists) {
                        VP_ASSERT(streq(v, want), "a setting equals the last file's value, else its registered default");
#ifndef REPLAY
                        VP_ASSERT(v == NULL || __CPROVER_r_ok(v, 2), "the value is live memory owned by the live tree");
#endif
                    }
                    if (registered && existed[i]) {
                        int changed = !streq(before[i], want);
                        VP_ASSERT((hook_calls[i] != calls0[i]) == changed, "a setting's hook runs exactly when its effective value changes");
                        VP_ASSERT(hook_calls[i] - calls0[i] <= 1, "and at most once per load");
                    }
                }

            }
        }
#ifdef SAME_TWICE
        if (k == 1)
            for (i = 0; i < N_NUM; i++)
                VP_ASSERT(hook_calls[i] == calls0[i], "loading the same content twice notifies nobody");
#endif
    }
    VP_COVER(f[0].val[N_A] != f[1].val[N_A], "the two files give a setting different values");
    VP_COVER(f[0].val[N_A] == f[1].val[N_A] && f[0].val[N_OA] == f[1].val[N_OA] && f[0].val[N_B] == f[1].val[N_B], "the two files give the same values");
    VP_COVER(f[1].val[N_A] == 2, "a file spells out the registered default");
}
