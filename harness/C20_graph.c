/* C20: module load / post-init / unload order respects the declared dependencies.
 *
 * M stub modules m0..m(M-1); a SYMBOLIC dependency matrix (every digraph, cycles and
 * self-loops included) and a symbolic "unloadable" module; the listing in the
 * configuration is concrete per query (the driver enumerates listings).
 * dlopen/dlsym hand out one constructor (which calls the real module_depends() for each
 * declared dependency, in index order), one post-init and one destructor per module, all
 * logging into ghost arrays.
 * Real code: src/module.c (module_load_list, module_load, module_depends, module_dfs,
 * module_close_all, module_cleanup), src/set.c, src/common.c vectors.
 */
#include "src/common.h"
#include "vp.h"
#include <dlfcn.h>

#ifndef M
#define M 3
#endif

extern void (*vp_fatal_hook)(void);
extern int vp_fatal_seen;

static const char *const names[4] = { "m0", "m1", "m2", "m3" };
static int dep[M][M];            /* dep[i][j]: module i declares a dependency on j */
static int unloadable = -1;
static int handles[M];

static unsigned clock_;
static unsigned ctor_begin[M], ctor_end[M], ctor_n[M], post_t[M], post_n[M], dtor_t[M], dtor_n[M];
static int reach[M];

static int idx_of(const char *name)
{
    int i;
    for (i = 0; i < M; i++)
        if (strcmp(name, names[i]) == 0)
            return i;
    return -1;
}

static void stub_ctor(const char *name)
{
    int i = idx_of(name), j;
    if (i < 0) return;
    ctor_n[i]++;
    ctor_begin[i] = ++clock_;
    for (j = 0; j < M; j++)
        if (dep[i][j])
            module_depends(names[j], NULL);
    ctor_end[i] = ++clock_;
}

static void stub_post(struct module *self)
{
    int i = idx_of(module_get_name(self));
    if (i < 0) return;
    post_n[i]++;
    post_t[i] = ++clock_;
}

#define DTOR(I) static void stub_dtor_##I(void) { dtor_n[I]++; dtor_t[I] = ++clock_; }
DTOR(0) DTOR(1) DTOR(2)
#if M > 3
DTOR(3)
#endif

void *dlopen(const char *file, int flags)
{
    int i = idx_of(file);
    (void)flags;
    if (i < 0 || i == unloadable)
        return NULL;
    return &handles[i];
}
void *dlsym(void *h, const char *sym)
{
    int i = (int)((int *)h - handles);
    if (h == NULL || i < 0 || i >= M) return NULL;
    if (!strcmp(sym, "module_constructor")) return (void *)stub_ctor;
    if (!strcmp(sym, "module_post_init")) return (void *)stub_post;
    if (!strcmp(sym, "module_destructor")) {
        if (i == 0) return (void *)stub_dtor_0;
        if (i == 1) return (void *)stub_dtor_1;
        if (i == 2) return (void *)stub_dtor_2;
#if M > 3
        if (i == 3) return (void *)stub_dtor_3;
#endif
    }
    return NULL;
}
int dlclose(void *h) { (void)h; return 0; }
char *dlerror(void) { return "stub"; }

static int cyc[M];      /* module lies on a dependency cycle */
static int cyclic_reach, unloadable_reach;

static void at_fatal(void)
{
    int i;
    VP_ASSERT(cyclic_reach | unloadable_reach, "start-up is aborted only for a genuine dependency cycle or an unloadable module");
    for (i = 0; i < M; i++)
        VP_ASSERT(!cyc[i] | (post_n[i] == 0), "no post-init has run for a module on a cycle when start-up is aborted");
}

void harness(void)
{
    static const int listing[] = { VP_LIST };
    const unsigned nlist = sizeof(listing) / sizeof(listing[0]);
    struct string_vector list;
    char *lv[4];
    int i, j, k, res, changed;
    int tc[M][M];

    /* the dependency graph is concrete per query (VP_DEP: bit i*M+j = "module i depends on j";
     * the driver enumerates graphs), because the graph IS the shape of the module table and a
     * symbolic shape does not finish (DESIGN A2.3).  SYMBOLIC: which module, if any, cannot be
     * loaded (dlopen fails for it). */
    for (i = 0; i < M; i++)
        for (j = 0; j < M; j++)
#ifdef VP_DEP
            dep[i][j] = (int)((VP_DEP >> (i * M + j)) & 1u);
#else
            dep[i][j] = vp_bool();
#endif
    unloadable = (int)vp_range(0, M) - 1;        /* -1: every module loads */

    /* reference: reachable set from the listing, transitive closure, cycles */
    for (i = 0; i < M; i++) reach[i] = 0;
    for (k = 0; k < (int)nlist; k++) reach[listing[k]] = 1;
    for (changed = 0; changed < M; changed++)
        for (i = 0; i < M; i++)
            for (j = 0; j < M; j++)
                reach[j] |= reach[i] & dep[i][j];      /* branch-free: see --paths below */
    for (i = 0; i < M; i++)
        for (j = 0; j < M; j++)
            tc[i][j] = dep[i][j];
    for (k = 0; k < M; k++)
        for (i = 0; i < M; i++)
            for (j = 0; j < M; j++)
                tc[i][j] |= tc[i][k] & tc[k][j];
    cyclic_reach = 0;
    for (i = 0; i < M; i++) {
        cyc[i] = tc[i][i];
        cyclic_reach |= reach[i] & cyc[i];
    }
    unloadable_reach = 0;
    for (i = 0; i < M; i++)
        unloadable_reach |= (unloadable == i) & reach[i];

    vp_fatal_hook = at_fatal;
    module_init();
    for (k = 0; k < (int)nlist; k++) lv[k] = (char *)names[listing[k]];
    list.used = list.size = nlist;
    list.vec = lv;

    res = module_load_list(&list);

    /* (conditions are written branch-free so that the symbolic execution forks only where the
     * real code branches) */
    VP_ASSERT(!(cyclic_reach | unloadable_reach) | (res != 0), "a dependency cycle or an unloadable module does not report success");
    if (!(cyclic_reach | unloadable_reach)) {
        VP_ASSERT(res == 0, "an acyclic, loadable graph loads");
        for (i = 0; i < M; i++) {
            VP_ASSERT(ctor_n[i] == (unsigned)reach[i], "each module named or pulled in is constructed exactly once, others never");
            VP_ASSERT(post_n[i] == (unsigned)reach[i], "post-init runs exactly once per loaded module (also when reachable along two paths)");
            for (j = 0; j < M; j++)
                if (i != j) {
                    int e = reach[i] & dep[i][j];
                    VP_ASSERT(!e | ((ctor_n[j] == 1) & (ctor_end[j] < ctor_end[i])), "a dependency is fully constructed before its dependent finishes constructing");
                    VP_ASSERT(!e | ((post_n[j] == 1) & (post_t[j] < post_t[i])), "post-init of a dependency runs before that of its dependent");
                }
        }
        module_close_all();
        for (i = 0; i < M; i++) {
            VP_ASSERT(dtor_n[i] == (unsigned)reach[i], "each loaded module is destroyed exactly once");
            for (j = 0; j < M; j++)
                if (i != j)
                    VP_ASSERT(!(reach[i] & dep[i][j]) | (dtor_t[i] < dtor_t[j]), "a module's destructor runs before those of the modules it depends on");
        }
    }
    VP_COVER(!(cyclic_reach | unloadable_reach) & (res == 0), "opt: acyclic, loadable graph loaded and unloaded");
    VP_COVER(cyclic_reach & (res != 0), "opt: cycle reported by return value");
    VP_COVER(unloadable < 0, "every module loadable");
}
