/* C19b: one container operation from an arbitrary valid pre-state.
 *
 * Pre-state: a search tree of VP_N nodes whose SHAPE is fixed per query by the
 * driver (it enumerates every binary tree shape of that size: a superset of the
 * splay-reachable ones) with strictly increasing SYMBOLIC int keys over the whole
 * int range, threaded prev/next list in key order, count == VP_N.
 * Step: one symbolic operation with a symbolic operand key (anywhere in int).
 * Post: results agree with the sorted-array model; the post-state is again a
 * search tree whose in-order walk equals the threaded list equals the model;
 * count is right; cleanup ran exactly once on exactly the elements that left.
 * Because every shape is a pre-state and every post-state is shown to be a valid
 * shape, all operation sequences that never hold more than VP_N(+1) elements are covered.
 *
 * Real code: src/set.c (all of it) with set_compare_int, xmalloc from src/common.c.
 */
#include "src/common.h"
#include "vp.h"

#ifndef VP_N
#error VP_N
#endif
#define MAXN (VP_N + 1)

/* one element: the container's node header followed by the datum (an int key),
 * exactly the layout set_node_alloc(sizeof(int)) produces; allocated with a
 * typed malloc so that CBMC sees a struct instead of a byte array */
struct elt { struct set_node node; int key; };
#define ELT_ALLOC() ((struct set_node *)calloc(1, sizeof(struct elt)))

static const int SH_L[] = { VP_L };
static const int SH_R[] = { VP_R };

static void *cleaned[MAXN + 2];
static unsigned ncleaned;

static void count_cleanup(void *data)
{
    if (ncleaned < MAXN + 2)
        cleaned[ncleaned] = data;
    ncleaned++;
}

static unsigned times_cleaned(void *data)
{
    unsigned i, n = 0;
    for (i = 0; i < ncleaned && i < MAXN + 2; i++)
        if (cleaned[i] == data)
            n++;
    return n;
}

static struct set set;
static struct set_node *pre[MAXN];   /* pre-state nodes in key order */
static int prekey[MAXN];

/* Structural audit of the post-state against the expected key sequence
 * want[0..m-1] (strictly increasing) and expected node identities wnode[]. */
static void audit(const int *want, struct set_node *const *wnode, unsigned m)
{
    struct set_node *walk[MAXN + 1];
    struct set_node *it;
    unsigned n = 0, i;

    VP_ASSERT(set_size(&set) == m, "size agrees with the mathematical set");
    /* threaded list from set_first() via set_next() */
    it = set_first(&set);
    VP_ASSERT((it == NULL) == (m == 0), "first() is NULL exactly for the empty set");
    VP_ASSERT((set.root == NULL) == (m == 0), "root is NULL exactly for the empty set");
    if (it)
        VP_ASSERT(set_prev(it) == NULL, "first element has no predecessor");
    for (; it != NULL && n < m; it = set_next(it)) {
        walk[n] = it;
        VP_ASSERT(it == wnode[n], "next-order visits exactly the member nodes in key order");
        VP_ASSERT(*(int *)set_node_data(it) == want[n], "next-order yields the keys in increasing order");
        if (n > 0)
            VP_ASSERT(set_prev(it) == walk[n - 1], "prev is the inverse of next");
        n++;
    }
    VP_ASSERT(n == m && it == NULL, "iteration visits every member once and then stops");
    if (n != m || it != NULL)
        return;

    /* tree: iterative range check with an explicit stack; every node must be
     * reached exactly once and sit inside the index range its ancestors allow */
    {
        struct set_node *stk[MAXN + 1];
        unsigned lo[MAXN + 1], hi[MAXN + 1];
        unsigned sp = 0, visited = 0;
        if (set.root) {
            stk[0] = set.root; lo[0] = 0; hi[0] = m; /* [lo,hi) */
            sp = 1;
        }
        while (sp > 0 && visited <= m) {
            struct set_node *nd;
            unsigned l, h, idx;
            sp--;
            nd = stk[sp]; l = lo[sp]; h = hi[sp];
            for (idx = 0; idx < m; idx++)
                if (walk[idx] == nd)
                    break;
            VP_ASSERT(idx < m, "every tree node is a member");
            if (idx >= m)
                return;
            VP_ASSERT(idx >= l && idx < h, "search-tree order: node lies between its ancestors' keys");
            if (!(idx >= l && idx < h))
                return;
            visited++;
            if (nd->l) {
                VP_ASSERT(sp < MAXN + 1, "audit stack");
                stk[sp] = nd->l; lo[sp] = l; hi[sp] = idx; sp++;
            } else
                VP_ASSERT(l == idx, "no member is missing from a left subtree");
            if (nd->r) {
                VP_ASSERT(sp < MAXN + 1, "audit stack");
                stk[sp] = nd->r; lo[sp] = idx + 1; hi[sp] = h; sp++;
            } else
                VP_ASSERT(idx + 1 == h, "no member is missing from a right subtree");
        }
        VP_ASSERT(sp == 0 && visited == m, "tree reaches every member exactly once");
    }
}

enum { OP_INSERT, OP_REMOVE, OP_REMOVE_KEEP, OP_FIND, OP_LOWER, OP_CLEAR, OP_CLEAR_KEEP, OP_NUM };

void harness(void)
{
    unsigned i, op, pos, present;
    int key;
    int want[MAXN + 1];
    struct set_node *wnode[MAXN + 1];
    unsigned m;

    /* ---- pre-state ---- */
    for (i = 0; i < VP_N; i++) {
        pre[i] = ELT_ALLOC();
        VP_ASSUME(pre[i] != NULL);
        prekey[i] = vp_i32();
        if (i > 0)
            VP_ASSUME(prekey[i - 1] < prekey[i]);
        *(int *)set_node_data(pre[i]) = prekey[i];
    }
    for (i = 0; i < VP_N; i++) {
        pre[i]->l = SH_L[i] >= 0 ? pre[SH_L[i]] : NULL;
        pre[i]->r = SH_R[i] >= 0 ? pre[SH_R[i]] : NULL;
        pre[i]->prev = i > 0 ? pre[i - 1] : NULL;
        pre[i]->next = i + 1 < VP_N ? pre[i + 1] : NULL;
    }
    set.compare = set_compare_int;
    set.cleanup = count_cleanup;
    set.root = VP_N > 0 ? pre[VP_ROOT] : NULL;
    set.count = VP_N;

    key = vp_i32();
#ifdef VP_OP
    op = VP_OP;
#else
    op = vp_range(0, OP_NUM - 1);
#endif
    /* position of key in the model: pos = number of members < key */
    for (pos = 0; pos < VP_N && prekey[pos] < key; pos++) {}
    present = (pos < VP_N && prekey[pos] == key);

    switch (op) {
    case OP_INSERT: {
        struct set_node *nn = ELT_ALLOC();
        VP_ASSUME(nn != NULL);
        *(int *)set_node_data(nn) = key;
        set_insert(&set, nn);
        /* model */
        m = 0;
        for (i = 0; i < VP_N; i++) {
            if (i == pos) { want[m] = key; wnode[m] = nn; m++; if (present) continue; }
            want[m] = prekey[i]; wnode[m] = pre[i]; m++;
        }
        if (pos == VP_N) { want[m] = key; wnode[m] = nn; m++; }
        audit(want, wnode, m);
        if (present) {
            VP_ASSERT(ncleaned == 1 && cleaned[0] == set_node_data(pre[pos]), "replacing insert cleans up exactly the replaced element, once");
        } else
            VP_ASSERT(ncleaned == 0, "plain insert cleans up nothing");
#if VP_N >= 1
        VP_COVER(present, "insert of an equal key replaces a member");
        VP_COVER(!present && pos == 0, "insert below the minimum");
        VP_COVER(!present && pos == VP_N, "insert above the maximum");
#else
        VP_COVER(1, "insert into the empty set");
#endif
#if VP_N >= 2
        VP_COVER(!present && pos > 0 && pos < VP_N, "insert between two members");
#endif
        break;
    }
    case OP_REMOVE:
    case OP_REMOVE_KEEP: {
        int r = set_remove(&set, &key, op == OP_REMOVE_KEEP);
        VP_ASSERT(r == (int)present, "remove reports membership");
        m = 0;
        for (i = 0; i < VP_N; i++) {
            if (present && i == pos) continue;
            want[m] = prekey[i]; wnode[m] = pre[i]; m++;
        }
        audit(want, wnode, m);
        if (present && op == OP_REMOVE)
            VP_ASSERT(ncleaned == 1 && cleaned[0] == set_node_data(pre[pos]), "remove cleans up exactly the removed element, once");
        else
            VP_ASSERT(ncleaned == 0, "no cleanup when nothing is removed or disposal is suppressed");
        if (present && op == OP_REMOVE_KEEP) {
            /* caller owns the node: it must still be a live allocation */
            VP_ASSERT(*(int *)set_node_data(pre[pos]) == key, "a node removed without disposal is left intact");
            xfree(pre[pos]);
        }
#if VP_N >= 1
        VP_COVER(present && op == OP_REMOVE, "remove a member with disposal");
        VP_COVER(present && op == OP_REMOVE_KEEP, "remove a member without disposal");
        VP_COVER(!present, "remove an absent key");
#else
        VP_COVER(1, "remove from the empty set");
#endif
        break;
    }
    case OP_FIND: {
        void *d = set_find(&set, &key);
        VP_ASSERT((d != NULL) == (present != 0), "find reports membership");
        if (d)
            VP_ASSERT(d == set_node_data(pre[pos]), "find returns the member with that key");
        for (i = 0, m = 0; i < VP_N; i++) { want[m] = prekey[i]; wnode[m] = pre[i]; m++; }
        audit(want, wnode, m);
        VP_ASSERT(ncleaned == 0, "lookup cleans up nothing");
#if VP_N >= 1
        VP_COVER(present, "find a member");
        VP_COVER(!present, "find an absent key");
#else
        VP_COVER(1, "find in the empty set");
#endif
        break;
    }
    case OP_LOWER: {
        struct set_node *nd = set_lower(&set, &key);
        if (pos < VP_N)
            VP_ASSERT(nd == pre[pos], "lower bound is the smallest member >= key");
        else
            VP_ASSERT(nd == NULL, "lower bound beyond the maximum is NULL");
        for (i = 0, m = 0; i < VP_N; i++) { want[m] = prekey[i]; wnode[m] = pre[i]; m++; }
        audit(want, wnode, m);
        VP_ASSERT(ncleaned == 0, "lower bound cleans up nothing");
#if VP_N >= 1
        VP_COVER(pos == VP_N, "lower bound beyond the maximum");
        VP_COVER(present, "lower bound of a member is itself");
#else
        VP_COVER(1, "lower bound in the empty set");
#endif
#if VP_N >= 2
        VP_COVER(pos < VP_N && !present && pos > 0, "lower bound strictly between two members");
#endif
        break;
    }
    case OP_CLEAR:
    case OP_CLEAR_KEEP:
        set_clear(&set, op == OP_CLEAR_KEEP);
        audit(want, wnode, 0);
        if (op == OP_CLEAR) {
            VP_ASSERT(ncleaned == VP_N, "clear with disposal cleans up every member");
            for (i = 0; i < VP_N; i++)
                VP_ASSERT(times_cleaned(set_node_data(pre[i])) == 1, "each member cleaned up exactly once");
        } else {
            VP_ASSERT(ncleaned == 0, "clear without disposal cleans up nothing");
            for (i = 0; i < VP_N; i++) {
                VP_ASSERT(*(int *)set_node_data(pre[i]) == prekey[i], "nodes cleared without disposal are left intact");
                xfree(pre[i]);
            }
        }
        VP_COVER(op == OP_CLEAR, "clear with disposal");
        VP_COVER(op == OP_CLEAR_KEEP, "clear without disposal");
        break;
    default:
        break;
    }
    VP_COVER(1, "harness end reached");
}
