/* core_env.c - what src/common.c and src/set.c need from the rest of the core
 * when log.c / module.c are not themselves under test:
 *   log_message: formatting is not the subject -> empty body; LOG_FATAL ends the
 *   path (the real one calls _exit(1)).  */
#include "src/common.h"
#include "vp.h"

#ifndef VP_HAVE_LOG
struct log_type *log_core;
#endif
int vp_fatal_seen;
/* obligations a harness wants checked at the point where the process would die */
void (*vp_fatal_hook)(void);

#ifndef VP_HAVE_LOG
void log_message(struct log_type *type, enum log_severity sev, const char *format, ...)
{
    (void)type; (void)format;
    if (sev == LOG_FATAL) {
        vp_fatal_seen = 1;
        if (vp_fatal_hook)
            vp_fatal_hook();
#ifdef REPLAY
        fflush(NULL);
        fprintf(stderr, "VP-REPLAY: LOG_FATAL reached: the process would exit(1) here\n");
        _exit(0);
#else
        __CPROVER_assume(0);
#endif
    }
}

void log_vmessage(struct log_type *type, enum log_severity sev, const char *format, va_list args)
{
    (void)args;
    log_message(type, sev, "%s", format);
}
#endif

#ifndef VP_HAVE_MODULE
void module_close_all(void) {}
#endif

#ifndef VP_HAVE_LOG
static int vp_dummy_log_type;
struct log_type *log_type_register(const char *name, const char *default_target)
{
    (void)name; (void)default_target;
    return (struct log_type *)&vp_dummy_log_type;
}
#endif
