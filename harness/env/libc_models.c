/* libc_models.c - C models of the libc functions CBMC 6.11 has no body for.
 * Only compiled into the symbolic build; native replay links the real glibc.
 *
 * vsnprintf/snprintf/sprintf: exactly the conversions this code base uses
 *   %s %d %i %u %lu %ld %x %#x %c %% %.*s %02d %04d (and %g/%f/%.0f rendered as "0":
 *   floating point only occurs in iauth_class' statistics line, outside every claim).
 * C99 semantics: returns the length that would have been written; writes at
 * most size-1 bytes plus NUL.
 */
#ifndef REPLAY

#include <stdarg.h>
#include <stddef.h>
#include <string.h>

static size_t vpm_put(char *out, size_t size, size_t pos, char c)
{
    if (pos + 1 < size)
        out[pos] = c;
    return pos + 1;
}

static size_t vpm_num(char *out, size_t size, size_t pos, unsigned long v, unsigned base,
                      int neg, int alt, int zero, unsigned width)
{
    char tmp[24];
    unsigned n = 0, len, i;
    static const char digs[] = "0123456789abcdef";

    do {
        tmp[n++] = digs[v % base];
        v /= base;
    } while (v != 0 && n < 22);
    len = n + (neg ? 1 : 0) + ((alt && base == 16) ? 2 : 0);
    if (!zero)
        for (i = len; i < width; i++)
            pos = vpm_put(out, size, pos, ' ');
    if (neg)
        pos = vpm_put(out, size, pos, '-');
    if (alt && base == 16) {
        pos = vpm_put(out, size, pos, '0');
        pos = vpm_put(out, size, pos, 'x');
    }
    if (zero)
        for (i = len; i < width; i++)
            pos = vpm_put(out, size, pos, '0');
    while (n > 0)
        pos = vpm_put(out, size, pos, tmp[--n]);
    return pos;
}

int vsnprintf(char *out, size_t size, const char *fmt, va_list ap)
{
    size_t pos = 0;
    /* CBMC 6.11 does not apply the default argument promotions to variadic
     * arguments.  The one call in this code base that passes a sub-int argument to
     * %u is iauth_send's " %d %s %u" (req->remote_port is unsigned short). */
    int ushort_u = (fmt[0] == ' ' && fmt[1] == '%' && fmt[2] == 'd' && fmt[3] == ' ' && fmt[4] == '%' && fmt[5] == 's'
                    && fmt[6] == ' ' && fmt[7] == '%' && fmt[8] == 'u' && fmt[9] == '\0');

    while (*fmt) {
        int alt = 0, zero = 0, lng = 0, have_prec = 0;
        unsigned width = 0, prec = 0;
        char c = *fmt++;

        if (c != '%') {
            pos = vpm_put(out, size, pos, c);
            continue;
        }
        for (;; fmt++) {
            if (*fmt == '#') alt = 1;
            else if (*fmt == '0') zero = 1;
            else break;
        }
        while (*fmt >= '0' && *fmt <= '9')
            width = width * 10 + (unsigned)(*fmt++ - '0');
        if (*fmt == '.') {
            have_prec = 1;
            fmt++;
            if (*fmt == '*') {
                int p = va_arg(ap, int);
                prec = p < 0 ? 0 : (unsigned)p;
                if (p < 0) have_prec = 0;
                fmt++;
            } else
                while (*fmt >= '0' && *fmt <= '9')
                    prec = prec * 10 + (unsigned)(*fmt++ - '0');
        }
        while (*fmt == 'l') { lng++; fmt++; }
        c = *fmt;
        if (c == '\0')
            break;
        fmt++;
        switch (c) {
        case '%':
            pos = vpm_put(out, size, pos, '%');
            break;
        case 'c':
            pos = vpm_put(out, size, pos, (char)va_arg(ap, int));
            break;
        case 's': {
            const char *s = va_arg(ap, const char *);
            unsigned k;
            if (!s) s = "(null)";
            for (k = 0; s[k] != '\0' && (!have_prec || k < prec); k++)
                pos = vpm_put(out, size, pos, s[k]);
            break;
        }
        case 'd': case 'i': {
            long v = lng ? va_arg(ap, long) : (long)va_arg(ap, int);
            unsigned long u = v < 0 ? 0ul - (unsigned long)v : (unsigned long)v;
            pos = vpm_num(out, size, pos, u, 10, v < 0, 0, zero, width);
            break;
        }
        case 'u': {
            unsigned long u = lng ? va_arg(ap, unsigned long) : ushort_u ? (unsigned long)va_arg(ap, unsigned short) : (unsigned long)va_arg(ap, unsigned int);
            pos = vpm_num(out, size, pos, u, 10, 0, 0, zero, width);
            break;
        }
        case 'x': {
            unsigned long u = lng ? va_arg(ap, unsigned long) : (unsigned long)va_arg(ap, unsigned int);
            pos = vpm_num(out, size, pos, u, 16, 0, alt && u != 0, zero, width);
            break;
        }
        case 'g': case 'f': case 'e':
            (void)va_arg(ap, double);
            pos = vpm_put(out, size, pos, '0');
            break;
        case 'p':
            (void)va_arg(ap, void *);
            pos = vpm_put(out, size, pos, 'P');
            break;
        default:
            pos = vpm_put(out, size, pos, '?');
            break;
        }
    }
    if (size > 0)
        out[pos < size ? pos : size - 1] = '\0';
    return (int)pos;
}

int snprintf(char *out, size_t size, const char *fmt, ...)
{
    va_list ap;
    int r;
    va_start(ap, fmt);
    r = vsnprintf(out, size, fmt, ap);
    va_end(ap);
    return r;
}

int sprintf(char *out, const char *fmt, ...)
{
    va_list ap;
    int r;
    va_start(ap, fmt);
    r = vsnprintf(out, (size_t)1 << 20, fmt, ap);
    va_end(ap);
    return r;
}

/* _FORTIFY_SOURCE variants (compat.h defines _FORTIFY_SOURCE 2 when !NDEBUG) */
int __snprintf_chk(char *out, size_t size, int flag, size_t slen, const char *fmt, ...)
{
    va_list ap;
    int r;
    (void)flag; (void)slen;
    va_start(ap, fmt);
    r = vsnprintf(out, size, fmt, ap);
    va_end(ap);
    return r;
}

int __vsnprintf_chk(char *out, size_t size, int flag, size_t slen, const char *fmt, va_list ap)
{
    (void)flag; (void)slen;
    return vsnprintf(out, size, fmt, ap);
}

/* strtoul: CBMC ships strtol but not strtoul.  Base 0/10/16, optional sign,
 * wraps like glibc only up to ULONG_MAX saturation (ERANGE -> ULONG_MAX). */
static int vpm_digit(char c)
{
    if (c >= '0' && c <= '9') return c - '0';
    if (c >= 'a' && c <= 'z') return c - 'a' + 10;
    if (c >= 'A' && c <= 'Z') return c - 'A' + 10;
    return 99;
}

unsigned long strtoul(const char *s, char **end, int base)
{
    const char *p = s;
    unsigned long v = 0;
    int neg = 0, any = 0, ovf = 0;

    while (*p == ' ' || (*p >= '\t' && *p <= '\r'))
        p++;
    if (*p == '+' || *p == '-')
        neg = (*p++ == '-');
    if ((base == 0 || base == 16) && p[0] == '0' && (p[1] == 'x' || p[1] == 'X') && vpm_digit(p[2]) < 16) {
        p += 2;
        base = 16;
    } else if (base == 0)
        base = (p[0] == '0') ? 8 : 10;
    for (;; p++) {
        int d = vpm_digit(*p);
        if (d >= base)
            break;
        any = 1;
        if (v > (~0ul - (unsigned long)d) / (unsigned long)base)
            ovf = 1;
        v = v * (unsigned long)base + (unsigned long)d;
    }
    if (end)
        *end = (char *)(any ? p : s);
    if (ovf)
        return ~0ul;
    return neg ? 0ul - v : v;
}

#endif /* !REPLAY */

#if !defined(REPLAY) && defined(VP_TYPED_REALLOC)
/* realloc for vectors of pointers (const_string_vector in src/module.c): CBMC's own model
 * returns a byte array, and pointers read back from a byte array are no longer constants
 * for the symbolic execution.  A block whose size is a multiple of the pointer size is
 * allocated as an array of pointers and copied element-wise. */
#include <stdlib.h>
void *realloc(void *p, size_t n)
{
    size_t old = p ? __CPROVER_OBJECT_SIZE(p) : 0, i;
    if (n == 0) {
        free(p);
        return NULL;
    }
    if (n % sizeof(void *) == 0 && old % sizeof(void *) == 0) {
        void **q = malloc((n / sizeof(void *)) * sizeof(void *));
        __CPROVER_assume(q != NULL);
        for (i = 0; i < old / sizeof(void *) && i < n / sizeof(void *); i++)
            q[i] = ((void **)p)[i];
        free(p);
        return q;
    } else {
        char *q = malloc(n);
        __CPROVER_assume(q != NULL);
        for (i = 0; i < old && i < n; i++)
            q[i] = ((char *)p)[i];
        free(p);
        return q;
    }
}
#endif
