/* file_env.h - a fake file whose content is the harness' byte array: redirects the five stdio
 * calls conf_read_file() makes (fopen, fileno, fstat, fread, fclose). */
#ifndef VP_FILE_ENV_H
#define VP_FILE_ENV_H
#include <stdio.h>
#include <sys/stat.h>
extern const char *vp_file_data;
extern size_t vp_file_len;
extern int vp_file_open_fails, vp_file_opened, vp_file_closed;
FILE *vp_fopen(const char *path, const char *mode);
int vp_fileno(FILE *f);
int vp_fstat(int fd, struct stat *st);
size_t vp_fread(void *ptr, size_t size, size_t n, FILE *f);
int vp_fclose(FILE *f);
#define fopen vp_fopen
#define fileno vp_fileno
#define fstat vp_fstat
#define fread vp_fread
#define fclose vp_fclose
#endif
