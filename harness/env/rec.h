/* rec.h - "decision layer" capture of the server channel.
 *
 * Inside the wrapper TU of the IAuth modules, snprintf/vsnprintf/fputs/fputc/fflush
 * are redirected here.  The unmodified iauth_send(), iauth_x_query(),
 * iauth_report_*(), iauth_routing() run, but instead of rendering bytes each
 * printf call stores a RECORD (format literal + evaluated arguments) in one of a
 * few fixed scratch slots, and each fputs(msg, stdout) hands the completed LINE to
 * the harness' online monitor vp_on_line().  (No table indexed by a running
 * counter: after a branch that counter would be symbolic and every record access
 * a 40-way case split.)  Rendering itself (format literal + arguments -> one
 * well-formed text line) is the subject of the separate C09 formatting harness,
 * which runs the real iauth_send with a byte-exact printf model.
 */
#ifndef VP_REC_H
#define VP_REC_H
#include <stdarg.h>
#include <stddef.h>
#include <stdio.h>

#define VP_MAXARG 8

struct vp_arg { char kind; /* 'i' integer, 's' string, 0 none */ long i; const char *s; };
struct vp_rec { const char *fmt; unsigned nargs; struct vp_arg a[VP_MAXARG]; };

/* One completed output line. */
struct vp_line {
    char cmd;               /* command letter */
    int has_req;            /* client-directed: id/addr/port were inserted */
    int client;             /* id printed */
    const char *addr;       /* address text printed */
    unsigned port;          /* port printed */
    struct vp_rec body;     /* iauth_send's own format (after the first word when has_req) and arguments */
    struct vp_rec inner;    /* the text formatted just before (iauth_x_query / report_* payload), if any */
    int have_inner;
    int have_tag;           /* a routing tag has been rendered (most recent one) */
    long tag_id, tag_serial;
};

extern unsigned vp_nline, vp_nflush, vp_newlines;
extern int vp_rec_overflow;

/* implemented by the harness */
void vp_on_line(const struct vp_line *l);

void vp_rec_reset(void);
int vp_rec_snprintf(char *buf, size_t size, const char *fmt, ...);
int vp_rec_vsnprintf(char *buf, size_t size, const char *fmt, va_list ap);
int vp_rec_fputs(const char *s, FILE *f);
int vp_rec_fputc(int c, FILE *f);
int vp_rec_fflush(FILE *f);

#endif
