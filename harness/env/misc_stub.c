/* misc_stub.c - contracts standing in for modules/iauth_misc.c in harnesses whose subject
 * is the line reader / dispatcher (C08).  The real functions are decided separately, for
 * every input inside the bounds stated there, by C12 (irc_ntop) and C13 (irc_pton,
 * irc_check_mask): memory-safe, result within the string, text NUL-terminated and shorter
 * than IRC_NTOP_MAX.  Here they return an arbitrary value satisfying that contract. */
#include "modules/iauth.h"
#include "vp.h"

unsigned int irc_pton(irc_inaddr *addr, unsigned int *bits, const char *input, int allow_trailing)
{
    unsigned i;
    (void)allow_trailing;
    VP_ASSERT(addr != NULL && input != NULL, "contract of irc_pton: non-NULL address and text");
    for (i = 0; i < 8; i++)
        addr->in6[i] = vp_u16();
    if (bits)
        *bits = vp_range(0, 128);
    return vp_range(0, 39);
}

unsigned int irc_ntop(char *output, unsigned int out_size, const irc_inaddr *addr)
{
    unsigned n = vp_range(1, 3), i;
    VP_ASSERT(output != NULL && addr != NULL && out_size >= IRC_NTOP_MAX, "contract of irc_ntop: buffer of at least IRC_NTOP_MAX bytes");
    for (i = 0; i < 3; i++) {
        char c = (char)vp_u8();
        VP_ASSUME(c != 0 && c != ' ' && c != '\n' && c != '\r' && c != ':');
        output[i] = i < n ? c : '\0';
    }
    output[3] = '\0';
    return n;
}

unsigned int irc_check_mask(const irc_inaddr *check, const irc_inaddr *mask, unsigned int bits)
{
    (void)check; (void)mask; (void)bits;
    return vp_bool();
}

int irc_inaddr_cmp(const void *a_, const void *b_)
{
    return memcmp(a_, b_, sizeof(irc_inaddr));
}
