/* alloc.h - model of set_node_alloc() for the IAuth modules' wrapper TU.
 *
 * The real macro is xmalloc(sizeof(struct set_node) + SIZE) = calloc of a byte
 * block.  CBMC represents an untyped block as a byte array and every struct
 * access through it as byte extraction (measured: 17x more SAT variables).
 * The model returns an equally zeroed block of the same size, but allocated
 * with the element's struct type when SIZE is one of the two element sizes the
 * modules use.  Native replay uses the same definition (it is plain C).
 */
#ifndef VP_ALLOC_H
#define VP_ALLOC_H
#include <stdlib.h>

struct iauth_xquery_client;
struct set_node *vp_node_alloc(size_t size);

#undef set_node_alloc
#define set_node_alloc(SIZE) vp_node_alloc(SIZE)
#endif
