/* iauth_env.c - environment model for the IAuth modules: libevent events,
 * evbuffer line input, clocks, fnmatch (uninterpreted), statistics helpers,
 * module_depends.  Contracts assumed from libevent: a freed event never fires,
 * a one-shot timer fires at most once, evbuffer_readln hands out complete lines. */
#include "env/iauth_env.h"
#include "vp.h"
#include <time.h>

struct vp_event *vp_events[VP_MAXEV];
int vp_event_freed[VP_MAXEV];
unsigned vp_nevents;
int vp_loopbreak;
long vp_now = 1000;
int vp_evbuffer_freed;
int clean_exit;

const char *vp_in_lines[VP_MAXIN];
unsigned vp_in_len[VP_MAXIN];      /* length of each queued line (0: use strlen) */
unsigned vp_in_count, vp_in_next;
int vp_read_result = 1;

struct event *event_new(struct event_base *base, evutil_socket_t fd, short events, event_callback_fn cb, void *arg)
{
    struct vp_event *ev = calloc(1, sizeof(*ev));
    (void)base; (void)fd;
    VP_ASSUME(ev != NULL);
    ev->cb = cb;
    ev->arg = arg;
    ev->is_timer = (fd == -1);
    ev->persist = (events & EV_PERSIST) != 0;
    VP_ASSERT(vp_nevents < VP_MAXEV, "environment: event table large enough");
    if (vp_nevents < VP_MAXEV) {
        vp_event_freed[vp_nevents] = 0;
        vp_events[vp_nevents++] = ev;
    }
    return (struct event *)ev;
}

int event_add(struct event *ev_, const struct timeval *tv)
{
    struct vp_event *ev = (struct vp_event *)ev_;
    (void)tv;
    ev->armed = 1;
    return 0;
}

void event_free(struct event *ev_)
{
    struct vp_event *ev = (struct vp_event *)ev_;
    unsigned i;
    for (i = 0; i < vp_nevents && i < VP_MAXEV; i++)
        if (vp_events[i] == ev) {
            VP_ASSERT(!vp_event_freed[i], "an event is freed at most once");
            vp_event_freed[i] = 1;
        }
    ev->armed = 0;
    free(ev);
}

int event_base_once(struct event_base *base, evutil_socket_t fd, short events, event_callback_fn cb, void *arg, const struct timeval *tv)
{
    (void)base; (void)fd; (void)events; (void)cb; (void)arg; (void)tv;
    return 0;
}

int event_base_loopbreak(struct event_base *base)
{
    (void)base;
    vp_loopbreak++;
    return 0;
}

int event_base_gettimeofday_cached(struct event_base *base, struct timeval *tv)
{
    (void)base;
    tv->tv_sec = vp_now;
    tv->tv_usec = 0;
    return 0;
}

/* Fire a timer exactly as libevent's dispatch loop would: only while armed and
 * not freed; a one-shot timer is disarmed before its callback runs. */
void vp_fire_timer(struct vp_event *ev)
{
    if (!ev->persist)
        ev->armed = 0;
    ev->cb(-1, EV_TIMEOUT, ev->arg);
}

static int vp_evbuffer_obj;
struct evbuffer *evbuffer_new(void) { vp_evbuffer_freed = 0; return (struct evbuffer *)&vp_evbuffer_obj; }
void evbuffer_free(struct evbuffer *b) { (void)b; vp_evbuffer_freed++; }
int evbuffer_read(struct evbuffer *b, evutil_socket_t fd, int howmuch)
{
    (void)b; (void)fd; (void)howmuch;
    return vp_read_result;
}

/* Hands out the next queued line as a fresh heap block the caller must free
 * (as evbuffer_readln does), without its line terminator. */
char *evbuffer_readln(struct evbuffer *b, size_t *n_read_out, enum evbuffer_eol_style eol_style)
{
    const char *src;
    char *out;
    size_t len;
    (void)b; (void)eol_style;
    if (vp_in_next >= vp_in_count || vp_in_next >= VP_MAXIN)
        return NULL;
    len = vp_in_len[vp_in_next];
    src = vp_in_lines[vp_in_next++];
    if (len == 0)
        len = strlen(src);
#ifdef VP_LINE_ALLOC
    out = malloc(VP_LINE_ALLOC);
    VP_ASSUME(out != NULL);
    VP_ASSERT(len < VP_LINE_ALLOC, "environment: line fits the modelled allocation");
#else
    out = malloc(len + 1);
    VP_ASSUME(out != NULL);
#endif
    {
        /* element-wise (not memcpy), so that the concrete bytes of a line layout stay concrete
         * for CBMC's constant propagation */
        size_t i;
        for (i = 0; i <= len; i++)
            out[i] = src[i];
    }
    if (n_read_out)
        *n_read_out = len;
    return out;
}

/* ---- uninterpreted fnmatch ---- */
struct vp_fn vp_fn_tab[VP_MAXFN];
unsigned vp_fn_n;

int vp_fnmatch_lookup(const char *pat, const char *str)
{
    unsigned i;
    for (i = 0; i < vp_fn_n && i < VP_MAXFN; i++)
        if (vp_fn_tab[i].pat == pat && vp_fn_tab[i].str == str)
            return vp_fn_tab[i].res;
    return -1;
}

#ifdef VP_UNINTERPRETED_FNMATCH
int fnmatch(const char *pat, const char *str, int flags)
{
    int r = vp_fnmatch_lookup(pat, str);
    (void)flags;
    if (r >= 0)
        return r;
    r = vp_bool() ? FNM_NOMATCH : 0;
    VP_ASSERT(vp_fn_n < VP_MAXFN, "environment: fnmatch table large enough");
    if (vp_fn_n < VP_MAXFN) {
        vp_fn_tab[vp_fn_n].pat = pat;
        vp_fn_tab[vp_fn_n].str = str;
        vp_fn_tab[vp_fn_n].res = r;
        {
            unsigned q;
            for (q = 0; q < 11 && str[q]; q++)
                vp_fn_tab[vp_fn_n].copy[q] = str[q];
            vp_fn_tab[vp_fn_n].copy[q] = '\0';
        }
        vp_fn_n++;
    }
    return r;
}
#endif

/* ---- statistics helpers (src/accumulators.c): statistics only ---- */
void variance_tick(struct variance *v, double value) { (void)v; (void)value; }
double variance_stdev(struct variance *v, int sample) { (void)v; (void)sample; return 0; }

#ifndef REPLAY
int clock_gettime(clockid_t id, struct timespec *ts)
{
    (void)id;
    ts->tv_sec = vp_now;
    ts->tv_nsec = 0;
    return 0;
}
#endif

#ifndef VP_HAVE_MODULE
void module_depends(const char *name, ...) { (void)name; }
#endif

const char iauthd_version[] = "verif";
