#include <stdio.h>
#include <string.h>
#include <sys/stat.h>
const char *vp_file_data;
size_t vp_file_len;
int vp_file_open_fails, vp_file_opened, vp_file_closed;
static int vp_file_obj;

FILE *vp_fopen(const char *path, const char *mode)
{
    (void)path; (void)mode;
    if (vp_file_open_fails)
        return NULL;
    vp_file_opened++;
    return (FILE *)&vp_file_obj;
}
int vp_fileno(FILE *f) { (void)f; return 3; }
int vp_fstat(int fd, struct stat *st) { (void)fd; st->st_size = (off_t)vp_file_len; return 0; }
size_t vp_fread(void *ptr, size_t size, size_t n, FILE *f)
{
    (void)f;
    if (size == 0 || size * n > vp_file_len)
        return 0;               /* an empty file reads as a short read */
    {
        /* element-wise, so that the concrete bytes of the text stay concrete for CBMC */
        size_t i;
        char *out = ptr;
        for (i = 0; i < size * n; i++)
            out[i] = vp_file_data[i];
    }
    return n;
}
int vp_fclose(FILE *f) { (void)f; vp_file_closed++; return 0; }
