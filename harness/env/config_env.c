/* config_env.c - what src/config.c needs besides set.c/common.c when log.c is
 * not under test: a log type registry stub and libevent's evdns entry points
 * (DNS never resolves inside a harness: ownership of the strings is all that
 * the properties need). */
#include "src/common.h"
#include "vp.h"

struct evdns_base *ev_dns;
struct event_base *ev_base;
struct evdns_getaddrinfo_request *evdns_getaddrinfo(struct evdns_base *dns_base, const char *nodename,
    const char *servname, const struct evutil_addrinfo *hints_in, evdns_getaddrinfo_cb cb, void *arg)
{
    (void)dns_base; (void)nodename; (void)servname; (void)hints_in; (void)cb; (void)arg;
    return NULL;
}
void evdns_getaddrinfo_cancel(struct evdns_getaddrinfo_request *req) { (void)req; }
void evutil_freeaddrinfo(struct evutil_addrinfo *ai) { (void)ai; }
const char *evdns_err_to_string(int err) { (void)err; return "dns error"; }
