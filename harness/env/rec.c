/* rec.c - see rec.h */
#include "rec.h"
#include <string.h>

unsigned vp_nline, vp_nflush, vp_newlines;
int vp_rec_overflow;

static struct vp_rec cur, prev;         /* the two most recent "other" records of the line being built */
static int have_cur, have_prev;
static int have_prefix, pre_client; static const char *pre_addr; static unsigned pre_port;
static int have_tag; static long tag_id, tag_serial;

void vp_rec_reset(void)
{
    vp_nline = vp_nflush = vp_newlines = 0;
    vp_rec_overflow = 0;
    have_cur = have_prev = have_prefix = have_tag = 0;
}

static void collect(struct vp_rec *r, const char *fmt, va_list ap)
{
    const char *p;
    unsigned n = 0;
    r->fmt = fmt;
    for (p = fmt; *p; p++) {
        int lng = 0, star = 0;
        if (*p != '%')
            continue;
        p++;
        while (*p == '#' || *p == '0' || (*p >= '1' && *p <= '9') || *p == '.' || *p == '*' || *p == 'l') {
            if (*p == 'l') lng = 1;
            if (*p == '*') star = 1;
            p++;
        }
        if (*p == '\0')
            break;
        if (*p == '%')
            continue;
        if (star && n < VP_MAXARG) {
            r->a[n].kind = 'i'; r->a[n].i = va_arg(ap, int); r->a[n].s = 0; n++;
        }
        if (n >= VP_MAXARG) {
            vp_rec_overflow = 1;
            break;
        }
        switch (*p) {
        case 's':
            r->a[n].kind = 's'; r->a[n].s = va_arg(ap, const char *); r->a[n].i = 0; n++;
            break;
        case 'd': case 'i': case 'c':
            r->a[n].kind = 'i'; r->a[n].s = 0;
            r->a[n].i = lng ? va_arg(ap, long) : (long)va_arg(ap, int); n++;
            break;
        case 'u': case 'x':
            r->a[n].kind = 'i'; r->a[n].s = 0;
            r->a[n].i = lng ? (long)va_arg(ap, unsigned long) : (long)va_arg(ap, unsigned int); n++;
            break;
        case 'g': case 'f': case 'e':
            (void)va_arg(ap, double);
            r->a[n].kind = 'i'; r->a[n].s = 0; r->a[n].i = 0; n++;
            break;
        default:
            break;
        }
    }
    r->nargs = n;
}

int vp_rec_vsnprintf(char *buf, size_t size, const char *fmt, va_list ap)
{
    if (size > 0)
        buf[0] = '\0';
    if (fmt[0] == '%' && fmt[1] == 'x' && fmt[2] == '_' && fmt[3] == '%' && fmt[4] == 'x' && fmt[5] == '\0') {
        /* iauth_routing */
        tag_id = (long)va_arg(ap, unsigned int);
        tag_serial = (long)va_arg(ap, unsigned int);
        have_tag = 1;
        /* leave a non-empty text behind, as the real formatter does: callers test routing[0] */
        if (size > 1) { buf[0] = 't'; buf[1] = '\0'; }
        return 3;
    }
    if (fmt[0] == ' ' && fmt[1] == '%' && fmt[2] == 'd' && fmt[3] == ' ' && fmt[4] == '%' && fmt[5] == 's') {
        /* iauth_send's " %d %s %u" */
        pre_client = va_arg(ap, int);
        pre_addr = va_arg(ap, const char *);
#ifdef REPLAY
        pre_port = va_arg(ap, unsigned int);
#else
        /* CBMC 6.11 does not apply the default argument promotions to variadic
         * arguments: req->remote_port arrives as the unsigned short it is */
        pre_port = va_arg(ap, unsigned short);
#endif
        have_prefix = 1;
        return 6;
    }
    if (have_cur) {
        prev = cur;
        have_prev = 1;
    }
    collect(&cur, fmt, ap);
    have_cur = 1;
    return 0;
}

int vp_rec_snprintf(char *buf, size_t size, const char *fmt, ...)
{
    va_list ap;
    int r;
    va_start(ap, fmt);
    r = vp_rec_vsnprintf(buf, size, fmt, ap);
    va_end(ap);
    return r;
}

/* iauth_send ends every message with fputs(msg, stdout); fputc('\n', stdout); fflush(stdout). */
int vp_rec_fputs(const char *s, FILE *f)
{
    struct vp_line l;
    (void)f;
    if (!have_cur) {
        vp_rec_overflow = 1;
        return 0;
    }
    l.body = cur;
    l.have_inner = have_prev;
    if (have_prev)
        l.inner = prev;
    l.has_req = have_prefix;
    l.client = have_prefix ? pre_client : 0;
    l.addr = have_prefix ? pre_addr : 0;
    l.port = have_prefix ? pre_port : 0;
    l.cmd = have_prefix ? s[0] : cur.fmt[0];
    l.have_tag = have_tag;
    l.tag_id = tag_id;
    l.tag_serial = tag_serial;
    vp_nline++;
    have_cur = have_prev = have_prefix = 0;
    vp_on_line(&l);
    return 0;
}

int vp_rec_fputc(int c, FILE *f)
{
    (void)f;
    if (c == '\n')
        vp_newlines++;
    return c;
}

int vp_rec_fflush(FILE *f)
{
    (void)f;
    vp_nflush++;
    return 0;
}
