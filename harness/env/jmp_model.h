/* jmp_model.h - CBMC has no non-local jump.  In the symbolic build of src/config.c
 * (tu/config_tu.c with VP_MODEL_LONGJMP) setjmp() returns 0 and longjmp(parse->env, code)
 * runs vp_longjmp(), which (1) records the error code, (2) lets the harness check its
 * error-path obligations (vp_on_parse_error), (3) executes the rest of conf_read() - the
 * `switch (res)` statement with res = code (its error branch) and the statements after it, both
 * extracted from /repo/src/config.c by gen_shim.py on every run - and (4) ends the path.
 * Native replay uses the real setjmp/longjmp. */
#ifndef VP_JMP_MODEL_H
#define VP_JMP_MODEL_H
#ifndef REPLAY
struct __jmp_buf_tag;
void vp_longjmp(void *env, int code);
#undef setjmp
#undef longjmp
#define setjmp(ENV) 0
#define longjmp(ENV, CODE) vp_longjmp((void *)(ENV), (CODE))
#endif
#endif
