/* jmp_model.h - CBMC has no non-local jump.  In the symbolic build of src/config.c
 * (tu/config_tu.c with VP_MODEL_LONGJMP) setjmp() returns 0 and longjmp(parse->env, code)
 * runs vp_longjmp(), which (1) records the error code, (2) lets the harness check its
 * error-path obligations (vp_on_parse_error), (3) executes the tail of conf_read() - the two
 * statements after its switch: release the scratch tree and the file buffer - and (4) ends the
 * path.  The error branches of conf_read()'s switch only write a log line.
 * gen_shim.py checks at build time that conf_read() still ends with exactly those statements.
 * Native replay uses the real setjmp/longjmp. */
#ifndef VP_JMP_MODEL_H
#define VP_JMP_MODEL_H
#ifndef REPLAY
struct __jmp_buf_tag;
void vp_longjmp(void *env, int code);
#undef setjmp
#undef longjmp
#define setjmp(ENV) 0
#define longjmp(ENV, CODE) vp_longjmp((void *)(ENV), (CODE))
#endif
#endif
