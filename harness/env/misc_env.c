/* Environment for harnesses that only use modules/iauth_misc.c:
 * the ct_* table of src/common.c is needed by irc_pton (ct_xdigit_val). */
#include "src/common.h"
uint8_t char_types[256];
