#ifndef VP_IAUTH_ENV_H
#define VP_IAUTH_ENV_H
#include "src/common.h"

/* model of a libevent event object */
struct vp_event {
    event_callback_fn cb;
    void *arg;
    int armed;      /* event_add() called and not yet fired */
    int is_timer;
    int persist;
};
#define VP_MAXEV 8
extern struct vp_event *vp_events[VP_MAXEV]; /* every event ever created, in order */
extern int vp_event_freed[VP_MAXEV];
extern unsigned vp_nevents;
extern int vp_loopbreak;
extern long vp_now;            /* current time handed out by the clock stubs */
extern int vp_evbuffer_freed;

/* input queue for the evbuffer model */
#define VP_MAXIN 8
extern const char *vp_in_lines[VP_MAXIN];
extern unsigned vp_in_len[VP_MAXIN];
extern unsigned vp_in_count, vp_in_next;
extern int vp_read_result;     /* what evbuffer_read() returns: >0 data, 0 EOF, <0 error */

/* uninterpreted fnmatch: consistent verdict per (pattern,string) pointer pair */
#define VP_MAXFN 12
struct vp_fn { const char *pat; const char *str; int res; char copy[12]; /* the string as it was when asked */ };
extern struct vp_fn vp_fn_tab[VP_MAXFN];
extern unsigned vp_fn_n;
int vp_fnmatch_lookup(const char *pat, const char *str); /* -1 if never asked */

void vp_fire_timer(struct vp_event *ev);
#endif
