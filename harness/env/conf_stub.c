/* conf_stub.c - stand-in for src/config.c in harnesses whose subject is the
 * IAuth protocol logic, not configuration: registration hands out empty,
 * harness-owned nodes; nothing is ever looked up.  (C11/C15/C17 use the real
 * src/config.c instead.) */
#include "src/common.h"
#include "vp.h"

#define VP_MAXCONF 6
static struct conf_node_object vp_conf_objs[VP_MAXCONF];
static struct conf_node_string vp_conf_strs[VP_MAXCONF];
static unsigned vp_nobj, vp_nstr;

struct conf_node_object *conf_register_object(struct conf_node_object *parent, const char *name)
{
    struct conf_node_object *o;
    VP_ASSERT(vp_nobj < VP_MAXCONF, "environment: config stub table large enough");
    o = &vp_conf_objs[vp_nobj < VP_MAXCONF ? vp_nobj++ : 0];
    o->base.name = (char *)name;
    o->base.parent = parent;
    o->base.type = CONF_OBJECT;
    o->base.specified = 1;
    return o;
}

struct conf_node_string *conf_register_string(struct conf_node_object *parent, enum conf_node_string_subtype subtype, const char *name, const char *def_value)
{
    struct conf_node_string *s;
    VP_ASSERT(vp_nstr < VP_MAXCONF, "environment: config stub table large enough");
    s = &vp_conf_strs[vp_nstr < VP_MAXCONF ? vp_nstr++ : 0];
    s->base.name = (char *)name;
    s->base.parent = parent;
    s->base.type = CONF_STRING;
    s->base.specified = 1;
    s->subtype = subtype;
    s->def_value = def_value;
    return s;
}

void *conf_get_child(struct conf_node_object *parent, const char *name, enum conf_node_type type)
{
    (void)parent; (void)name; (void)type;
    return NULL;
}

int conf_parse_boolean(const char *value, int *success)
{
    (void)value;
    if (success)
        *success = 0;
    return 0;
}
