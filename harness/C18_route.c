/* C18 / C09c: log routing follows the logs section; nothing reaches stdout at verbosity 0.
 *
 * Start-up as in the daemon (log types registered, first file merged by the real
 * conf_replace_value -> real log_rescan_conf), then a reload with a second section.  The two
 * sections are concrete per query (VP_S0, VP_S1: the driver enumerates pairs from a menu that
 * uses every operator, the * facility, lists of destinations and entries with unknown syntax).
 * SYMBOLIC: the message - its facility (core / m / a type nobody configured) and severity
 * (debug .. error) - sent after the start-up section and again after the reload.
 * Destinations are a recording back end registered through the real
 * log_destination_vtable_register(); the oracle is the documented meaning of each menu entry.
 * Obligations: destination d records the message  <=>  the CURRENT section maps (facility or *,
 * severity) to d; each record carries the message's facility and severity and the text; after
 * the reload a destination no longer referenced has been closed exactly once and none still
 * referenced was closed; with verbosity 0 nothing is written to stdout.
 * Real code: log_vmessage, log_message, log_rescan_conf, log_rescan_type,
 * log_parse_type_sevset, log_attach_destinations, log_destination_open, log_type_register,
 * log_init (src/log.c); the merge in src/config.c; set.c; vectors.
 */
#ifndef VP_HAVE_LOG
#define VP_HAVE_LOG
#endif
#include "tu/config_tu.c"

static unsigned stdout_writes;
static int vp_stdout_fprintf(FILE *f, const char *fmt, ...) { (void)f; (void)fmt; stdout_writes++; return 0; }
#define fprintf vp_stdout_fprintf
#define _exit(X) vp_exit(X)
static void vp_exit(int code);
#define conf log_conf
/* typed allocation for the two node kinds src/log.c creates itself (see env/alloc.h) */
struct set_node *vp_log_alloc(size_t size);
#undef set_node_alloc
#define set_node_alloc(SIZE) vp_log_alloc(SIZE)
#ifndef REPLAY
/* copy models for src/log.c (A2.11): CBMC's strdup/memcpy return bytes it no longer treats as
 * constants, after which every name comparison of the rescan is symbolic.  The models copy
 * element by element (constants stay constants) and assign the vtable as a struct (function
 * pointers stay pointers); the working copy is a block of fixed size.  The native replay uses
 * the real functions. */
static char *vp_xstrdup48(const char *s)
{
    char *p;
    unsigned i;
    if (!s) return NULL;
    p = malloc(48);
    __CPROVER_assume(p != NULL);
    for (i = 0; i < 47; i++) {
        p[i] = s[i];
        if (s[i] == '\0')
            break;
    }
    p[47] = '\0';
    return p;
}
struct log_destination_vtable;
static void *vp_log_memcpy(void *d, const void *s, size_t n);
#define xstrdup vp_xstrdup48
#define memcpy vp_log_memcpy
#endif
#include "src/log.c"
#undef xstrdup
#undef memcpy
#undef conf
#ifndef REPLAY
static void *vp_log_memcpy(void *d, const void *s, size_t n)
{
    if (n == sizeof(struct log_destination_vtable)) {
        *(struct log_destination_vtable *)d = *(const struct log_destination_vtable *)s;
    } else {
        size_t i;
        for (i = 0; i < n; i++)
            ((char *)d)[i] = ((const char *)s)[i];
    }
    return d;
}
#endif
struct vp_lt_elt { struct set_node node; struct log_type lt; char name[16]; };
struct vp_vt_elt { struct set_node node; struct log_destination_vtable vt; };
struct set_node *vp_log_alloc(size_t size)
{
    if (size == sizeof(struct log_destination_vtable))
        return (struct set_node *)calloc(1, sizeof(struct vp_vt_elt));
    if (size >= sizeof(struct log_type) && size <= sizeof(struct log_type) + 16)
        return (struct set_node *)calloc(1, sizeof(struct vp_lt_elt));
    return (struct set_node *)calloc(1, sizeof(struct set_node) + size);
}
#undef fprintf
#undef _exit
#include "vp.h"

static void vp_exit(int code)
{
    (void)code;
#ifdef REPLAY
    exit(0);
#else
    __CPROVER_assume(0);
#endif
}

/* ---- recording destinations A, B, C ---- */
struct rec_dest { struct set_node node; struct log_destination base; };
static struct log_destination *dest_obj[3];
static unsigned opened[3], closed[3], logged[3];
static struct log_type *last_type[3];
static enum log_severity last_sev[3];
static char last_text0[3];

static int dest_index(const struct log_destination *d)
{
    int i;
    for (i = 0; i < 3; i++)
        if (dest_obj[i] == d)
            return i;
    return -1;
}

/* one back end type per destination ("recA", "recB", "recC", no ':' argument): with a
 * "type:argument" name log_destination_open() copies the type with memcpy(, , sep - name), after
 * which CBMC no longer treats the copied bytes as constants and every later lookup is symbolic */
static struct log_destination *rec_open_i(int i)
{
    struct rec_dest *r = calloc(1, sizeof(*r));
    VP_ASSUME(r != NULL);
    dest_obj[i] = &r->base;
    opened[i]++;
    return &r->base;
}
static struct log_destination *rec_open_A(const char *args) { (void)args; return rec_open_i(0); }
static struct log_destination *rec_open_B(const char *args) { (void)args; return rec_open_i(1); }
static struct log_destination *rec_open_C(const char *args) { (void)args; return rec_open_i(2); }
static void rec_reopen(struct log_destination *self) { (void)self; }
static void rec_close(struct log_destination *self)
{
    int i = dest_index(self);
    if (i >= 0) { closed[i]++; dest_obj[i] = NULL; }
}
static void rec_log(struct log_destination *self, struct log_type *type, enum log_severity sev, const char *message)
{
    int i = dest_index(self);
    VP_ASSERT(i >= 0, "a message is only written to an open destination");
    if (i < 0) return;
    logged[i]++;
    last_type[i] = type;
    last_sev[i] = sev;
    last_text0[i] = message[0];
}
static const struct log_destination_vtable rec_vtable_A = { "recA", rec_open_A, rec_reopen, rec_close, rec_log };
static const struct log_destination_vtable rec_vtable_B = { "recB", rec_open_B, rec_reopen, rec_close, rec_log };
static const struct log_destination_vtable rec_vtable_C = { "recC", rec_open_C, rec_reopen, rec_close, rec_log };

/* ---- the menu of sections: entry name, destinations (bit 0 A, 1 B, 2 C), and its documented
 * meaning as (facility: 'c' core, 'm', '*' any) x severity mask (bit s = severity s) ---- */
struct entry { const char *name; unsigned dests; char fac; unsigned sevmask; };
#define SEV(d, c, i, w, e, f) ((d) | (c) << 1 | (i) << 2 | (w) << 3 | (e) << 4 | (f) << 5)
static const struct entry menu[][4] = {
    /* 0 */ { { "*.*", 1, '*', SEV(1, 1, 1, 1, 1, 1) }, { 0, 0, 0, 0 } },
    /* 1 */ { { "core.>=warning", 1, 'c', SEV(0, 0, 0, 1, 1, 1) }, { "m.info,error", 6, 'm', SEV(0, 0, 1, 0, 1, 0) }, { 0, 0, 0, 0 } },
    /* 2 */ { { "*.<info", 1, '*', SEV(1, 1, 0, 0, 0, 0) }, { "core.=debug", 2, 'c', SEV(1, 0, 0, 0, 0, 0) },
              { "bogus", 4, 0, 0 }, { "m.what", 4, 0, 0 } },
    /* 3 */ { { "m.<=command,>error", 2, 'm', SEV(1, 1, 0, 0, 0, 1) }, { "core.>info", 4, 'c', SEV(0, 0, 0, 1, 1, 1) }, { 0, 0, 0, 0 } },
    /* 4 */ { { 0, 0, 0, 0 } },
    /* 5 */ { { "*.WARNING", 4, '*', SEV(0, 0, 0, 1, 0, 0) }, { "m.*", 1, 'm', SEV(1, 1, 1, 1, 1, 1) }, { 0, 0, 0, 0 } },
    /* 6 */ { { "core.=debug", 1, 'c', SEV(1, 0, 0, 0, 0, 0) }, { 0, 0, 0, 0 } },
    /* 7 */ { { "core.debug,command", 1, 'c', SEV(1, 1, 0, 0, 0, 0) }, { 0, 0, 0, 0 } },
};

static unsigned want_dests(unsigned section, char fac, unsigned sev)
{
    unsigned k, d = 0;
    for (k = 0; k < 4 && menu[section][k].name; k++) {
        const struct entry *e = &menu[section][k];
        if (e->fac && (e->fac == '*' || e->fac == fac) && (e->sevmask & (1u << sev)))
            d |= e->dests;
    }
    return d;
}

static unsigned referenced(unsigned section)
{
    unsigned k, d = 0;
    for (k = 0; k < 4 && menu[section][k].name; k++)
        if (menu[section][k].fac)
            d |= menu[section][k].dests;
    return d;
}

static char *dname(unsigned i)
{
    char *p = malloc(6);
    VP_ASSUME(p != NULL);
    p[0] = 'r'; p[1] = 'e'; p[2] = 'c'; p[3] = (char)('A' + i); p[4] = '\0';
    return p;
}

static void load(unsigned section)
{
    struct conf_node_object scratch, *sec;
    unsigned k, i;
    memset(&scratch, 0, sizeof(scratch));
    scratch.base.name = ""; scratch.base.type = CONF_OBJECT; scratch.base.specified = 1; scratch.base.present = 1;
    scratch.contents.compare = conf_object_cmp; scratch.contents.cleanup = conf_object_cleanup;
    sec = conf_parse_get_child(&scratch, xstrdup("logs"), CONF_OBJECT, sizeof(*sec));
    sec->contents.compare = conf_object_cmp; sec->contents.cleanup = conf_object_cleanup;
    for (k = 0; k < 4 && menu[section][k].name; k++) {
        const struct entry *e = &menu[section][k];
        unsigned nd = 0;
        for (i = 0; i < 3; i++) if (e->dests & (1u << i)) nd++;
        if (nd == 1) {
            struct conf_node_string *s = conf_parse_get_child(sec, xstrdup(e->name), CONF_STRING, sizeof(*s));
            xfree(s->value);
            for (i = 0; i < 3; i++) if (e->dests & (1u << i)) s->value = dname(i);
        } else {
            struct conf_node_string_list *l = conf_parse_get_child(sec, xstrdup(e->name), CONF_STRING_LIST, sizeof(*l));
            struct string_vector nv;
            memset(&nv, 0, sizeof(nv));
            for (i = 0; i < 3; i++) if (e->dests & (1u << i)) string_vector_append(&nv, dname(i));
            conf_set_string_list_value(l, &nv);
            string_vector_clear_int(&nv);
        }
    }
    conf_replace_value(&conf_root.base, &scratch.base);
    set_clear(&scratch.contents, 0);
}

static void send_and_check(unsigned section, struct log_type *types[3])
{
    unsigned ft = vp_range(0, 2), sev = vp_range(0, 4), i, before[3], want;
    char fac = ft == 0 ? 'c' : ft == 1 ? 'm' : 'u';
    unsigned so = stdout_writes;
    for (i = 0; i < 3; i++) before[i] = logged[i];
    log_message(types[ft], (enum log_severity)sev, "x%d", 7);
    want = want_dests(section, fac, sev);
    for (i = 0; i < 3; i++) {
        VP_ASSERT((logged[i] - before[i]) == ((want >> i) & 1), "a message is written to a destination exactly when the current logs section maps its facility (or *) and severity there");
        if (logged[i] != before[i])
            VP_ASSERT(last_type[i] == types[ft] && last_sev[i] == (enum log_severity)sev && last_text0[i] == 'x', "each line written is attributed to its facility and severity and carries the text");
    }
    VP_ASSERT(stdout_writes == so, "C09: with verbosity 0 nothing from the logger reaches stdout");
    VP_COVER(want == 0, "opt: message routed nowhere");
    VP_COVER(want != 0 && (want & (want - 1)) != 0, "opt: message fanned out to several destinations");
    VP_COVER(want != 0 && (want & (want - 1)) == 0, "opt: message routed to one destination");
}

void harness(void)
{
    struct log_type *types[3];
    unsigned i, r0, r1;

    ctype_init();
    log_core = log_type_register("core", NULL);       /* log_init(): registers the logs section */
    log_destination_vtable_register(&rec_vtable_A);
    log_destination_vtable_register(&rec_vtable_B);
    log_destination_vtable_register(&rec_vtable_C);
    types[0] = log_core;
    types[1] = log_type_register("m", NULL);
    types[2] = log_type_register("u", NULL);
    log_set_verbosity(0);

    /* everything concrete (start-up section, then the reload) happens before the symbolic
     * message is sent, so that the configuration work stays concrete for the symbolic execution;
     * the state after the start-up section alone is the query with VP_S1 == VP_S0 omitted (-DONE_LOAD) */
    load(VP_S0);
#ifdef STOP_AFTER_LOAD
    return;
#endif
    r0 = referenced(VP_S0);
    for (i = 0; i < 3; i++)
        VP_ASSERT((dest_obj[i] != NULL) == ((r0 >> i) & 1) && closed[i] == 0, "a destination is open exactly when the section references it");
#ifdef ONE_LOAD
    (void)r1;
    send_and_check(VP_S0, types);
#else
    load(VP_S1);                                       /* reload */
    r1 = referenced(VP_S1);
    for (i = 0; i < 3; i++) {
        VP_ASSERT((dest_obj[i] != NULL) == ((r1 >> i) & 1), "after a reload exactly the destinations of the new section are open");
        if (((r0 >> i) & 1) && !((r1 >> i) & 1))
            VP_ASSERT(closed[i] == 1, "a destination no longer referenced is closed exactly once");
        if ((r1 >> i) & 1)
            VP_ASSERT(closed[i] == 0 || (opened[i] == closed[i] + 1), "a destination still (or again) referenced is open");
    }
    send_and_check(VP_S1, types);
#endif
    VP_COVER(1, "both sections exercised");
}
