/* C13a: irc_check_mask(check, mask, bits) != 0  <=>  the leading `bits` bits
 * (network order) of the two addresses are equal.
 * Symbolic: both 128-bit addresses, bits (whole unsigned range, split by -D).
 * Real code: modules/iauth_misc.c irc_check_mask. */
#include "modules/iauth.h"
#include "vp.h"

void harness(void)
{
    irc_inaddr a, m;
    unsigned int bits, i, eq = 1, r, first_diff = 128;

    vp_bytes(&a, sizeof(a));
    vp_bytes(&m, sizeof(m));
    bits = vp_u32();
#ifdef BITS_BEYOND
    VP_ASSUME(bits > 128);
#else
    VP_ASSUME(bits <= 128);
#endif
    r = irc_check_mask(&a, &m, bits);

    /* reference: compare bit by bit, most significant bit of byte 0 first */
    for (i = 0; i < 128; i++) {
        unsigned ba = (a.in6_8[i / 8] >> (7 - i % 8)) & 1;
        unsigned bm = (m.in6_8[i / 8] >> (7 - i % 8)) & 1;
        if (ba != bm) {
            if (first_diff == 128)
                first_diff = i;
            if (i < bits)
                eq = 0;
        }
    }
    VP_ASSERT((r != 0) == (eq != 0), "mask test succeeds exactly when the leading prefix-length bits are equal");
    VP_ASSERT(r == 0 || r == 1, "result is 0 or 1");

#ifdef BITS_BEYOND
    VP_COVER(r == 0 && first_diff == 127, "over-long prefix: only the last bit differs");
    VP_COVER(r != 0 && bits == 0xffffffffu, "over-long prefix: maximal length, equal addresses");
#else
    VP_COVER(r != 0 && bits > 0 && first_diff == bits, "match although the first bit after the prefix differs");
    VP_COVER(r == 0 && first_diff + 1 == bits, "mismatch in the last bit of the prefix");
    VP_COVER(r != 0 && (bits % 16) == 1 && first_diff < 128, "prefix ends one bit into a group, addresses differ later");
    VP_COVER(r == 0 && (bits % 16) == 0 && bits >= 16 && first_diff == bits - 1, "prefix ends on a group boundary, last bit differs");
    VP_COVER(r != 0 && bits == 0 && first_diff == 0, "zero-length prefix matches everything");
    VP_COVER(r != 0 && bits >= 128 && first_diff == 128, "full-length match");
#endif
}
