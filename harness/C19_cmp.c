/* C19a: the stock comparators are total orders over their whole key domain
 * (what the splay tree needs from them).  Symbolic: three keys of the key type.
 * Real code: set_compare_int / _voidp / _ptr / _charp (src/set.c). */
#include "src/common.h"
#include "vp.h"

static int sgn(int v) { return v > 0 ? 1 : v < 0 ? -1 : 0; }

#define LEMMAS(CMP, PA, PB, PC, LT_AB, EQ_AB)                                                       \
    do {                                                                                            \
        int ab = CMP(PA, PB), ba = CMP(PB, PA), bc = CMP(PB, PC), ac = CMP(PA, PC);                 \
        VP_ASSERT(CMP(PA, PA) == 0, "cmp(a,a) == 0");                                               \
        VP_ASSERT(sgn(ab) == -sgn(ba), "sgn cmp(a,b) == -sgn cmp(b,a)");                            \
        VP_ASSERT(!(ab < 0 && bc < 0) || ac < 0, "a<b and b<c imply a<c");                          \
        VP_ASSERT(!(ab == 0 && bc == 0) || ac == 0, "a==b and b==c imply a==c");                    \
        VP_ASSERT(!(ab == 0) || sgn(bc) == sgn(ac), "equal keys compare alike against a third");    \
        VP_ASSERT((ab == 0) == (EQ_AB), "cmp(a,b)==0 exactly for equal keys");                      \
        VP_ASSERT((ab < 0) == (LT_AB), "cmp(a,b)<0 exactly when a sorts before b");                 \
    } while (0)

static int lower(int c) { return (c >= 'A' && c <= 'Z') ? c + 32 : c; }

/* reference: case-insensitive (ASCII) lexicographic order on unsigned bytes */
static int ref_casecmp(const char *a, const char *b)
{
    unsigned i;
    for (i = 0;; i++) {
        int ca = lower((unsigned char)a[i]), cb = lower((unsigned char)b[i]);
        if (ca != cb)
            return ca < cb ? -1 : 1;
        if (ca == 0)
            return 0;
    }
}

void harness(void)
{
#if defined(CMP_INT)
    int a = vp_i32(), b = vp_i32(), c = vp_i32();
    LEMMAS(set_compare_int, &a, &b, &c, a < b, a == b);
    VP_COVER(a < 0 && b > 0 && (unsigned)b - (unsigned)a > 0x80000000u, "keys of opposite sign further apart than INT_MAX");
    VP_COVER(a == (-2147483647 - 1) && b == 2147483647, "extreme keys");
    VP_COVER(a == b && b != c, "equal pair");
#elif defined(CMP_VOIDP)
    /* keys are pointers into one object: CBMC (like ISO C) gives no meaning to
     * relational comparison of pointers into different objects */
    char pool[8];
    unsigned ia = vp_range(0, 7), ib = vp_range(0, 7), ic = vp_range(0, 7);
    void *a = pool + ia, *b = pool + ib, *c = pool + ic;
    LEMMAS(set_compare_voidp, &a, &b, &c, ia < ib, ia == ib);
    VP_COVER(ia > ib && ib > ic, "descending");
    VP_COVER(ia == ib && ib != ic, "equal pair");
#elif defined(CMP_PTR)
    char pool[8];
    unsigned ia = vp_range(0, 7), ib = vp_range(0, 7), ic = vp_range(0, 7);
    const void *a = pool + ia, *b = pool + ib, *c = pool + ic;
    LEMMAS(set_compare_ptr, a, b, c, ia < ib, ia == ib);
    VP_COVER(ia > ib && ib > ic, "descending");
    VP_COVER(ia == ib && ib != ic, "equal pair");
#elif defined(CMP_CHARP)
    char sa[4], sb[4], sc[4];
    char *a = sa, *b = sb, *c = sc;
    vp_bytes(sa, 3); vp_bytes(sb, 3); vp_bytes(sc, 3);
    sa[3] = sb[3] = sc[3] = '\0';
    LEMMAS(set_compare_charp, &a, &b, &c, ref_casecmp(sa, sb) < 0, ref_casecmp(sa, sb) == 0);
    VP_COVER(sa[0] == 'a' && sb[0] == 'A' && sa[1] == 0 && sb[1] == 0, "names differing in case only are the same key");
    VP_COVER(sa[0] == 'Z' && sb[0] == '_' && sa[1] == 0 && sb[1] == 0, "byte between the upper- and lower-case ranges");
    VP_COVER((unsigned char)sa[0] >= 0x80 && sb[0] > 0 && (unsigned char)sb[0] < 0x80, "non-ASCII byte");
#else
#error choose a comparator
#endif
}
