/* C07 (two steps): state that a handler leaves behind in the modules' own static variables
 * must not leak into the next client's conversation.  The inductive step (C_step.c) starts
 * every event from fresh function-local statics; this harness runs TWO events in sequence from
 * the same arbitrary inv() state: a data event for client A, then one for client B.
 * Obligation: every line of the second event that names a client names B - in particular the
 * routing tag of every X line is B's - and A's record is untouched by it.
 */
#define VP_NO_EVENTS
#include "C_step.c"

static char a1[8], a2[8];

void harness(void)
{
    struct snap sA;
    unsigned n_x_first;
    build_state();
    memset(&O, 0, sizeof(O));
    sym_str(a1, 4, 3); VP_ASSUME(a1[0] != '\0');
    sym_str(a2, 4, 3); VP_ASSUME(a2[0] != '\0');

#if defined(TWO_NICK)
    parse_nick(R[0], a1);
#else
    parse_hurry_up(R[0]);
#endif
    n_x_first = O.n_x[0];
    VP_ASSERT(O.n_foreign == 0 && O.n_x[1] == 0, "C07: the first client's event names only that client");
    if (O.verdict[0] || !live(0) || !live(1))
        return;                 /* A decided: covered by the single-step harness */
    take_snap(&sA, 0);
    memset(&O, 0, sizeof(O));

#if defined(TWO_NICK)
    parse_nick(R[1], a2);
#else
    parse_hurry_up(R[1]);
#endif
    VP_ASSERT(O.n_foreign == 0, "C07: no line of the second client's event carries a tag or id that is not live");
    VP_ASSERT(O.n_x[0] == 0 && O.n_accept[0] + O.n_kill[0] + O.n_soft[0] + O.n_other[0] == 0, "C07: every line of the second client's event, every routing tag included, names the second client");
    VP_ASSERT(live(0) && same_snap(&sA, 0), "C07: the first client's record is untouched by the second client's event");
    VP_COVER(n_x_first >= 1 && O.n_x[1] >= 1, "both clients were reported to a service, one after the other");
    VP_COVER(O.n_x[1] >= 1 && n_x_first == 0, "only the second client was reported");
}
