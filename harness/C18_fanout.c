/* C18 (fan-out) / C09c: a message is written to exactly the destinations the routing table
 * holds for its facility and for the `*` facility at its severity, each line attributed to its
 * facility and severity; with the verbosity main() sets for normal operation (0) nothing from
 * the logger reaches stdout.
 *
 * SYMBOLIC: the whole routing table - for each of the facilities core, m, `*` and each of the
 * six severities an arbitrary subset of three recording destinations - and the message's
 * facility (core, m, a facility without any entry) and severity (debug .. error).
 * The table is written into the real struct log_type objects created by the real
 * log_type_register(); how log_rescan_conf() derives the table from the logs section is the
 * subject of the `sevset` job (severity expressions) and otherwise outside the claim (DESIGN A3).
 * Real code: log_vmessage, log_message, log_type_register, log_init, log_set_verbosity (src/log.c).
 */
#ifndef VP_HAVE_LOG
#define VP_HAVE_LOG
#endif
#include "tu/config_tu.c"

static unsigned stdout_writes;
static int vp_stdout_fprintf(FILE *f, const char *fmt, ...) { (void)f; (void)fmt; stdout_writes++; return 0; }
#define fprintf vp_stdout_fprintf
#define _exit(X) vp_exit(X)
static void vp_exit(int code);
#define conf log_conf
struct set_node *vp_log_alloc(size_t size);
#undef set_node_alloc
#define set_node_alloc(SIZE) vp_log_alloc(SIZE)
#include "src/log.c"
#undef conf
#undef fprintf
#undef _exit
#include "vp.h"

struct vp_lt_elt { struct set_node node; struct log_type lt; char name[16]; };
struct vp_vt_elt { struct set_node node; struct log_destination_vtable vt; };
struct set_node *vp_log_alloc(size_t size)
{
    if (size == sizeof(struct log_destination_vtable))
        return (struct set_node *)calloc(1, sizeof(struct vp_vt_elt));
    if (size >= sizeof(struct log_type) && size <= sizeof(struct log_type) + 16)
        return (struct set_node *)calloc(1, sizeof(struct vp_lt_elt));
    return (struct set_node *)calloc(1, sizeof(struct set_node) + size);
}

static void vp_exit(int code)
{
    (void)code;
#ifdef REPLAY
    exit(0);
#else
    __CPROVER_assume(0);
#endif
}

static struct log_destination dest[3];
static unsigned logged[3];
static struct log_type *last_type[3];
static enum log_severity last_sev[3];
static char last_text[3][4];

static void rec_log(struct log_destination *self, struct log_type *type, enum log_severity sev, const char *message)
{
    int i = (int)(self - dest);
    VP_ASSERT(i >= 0 && i < 3, "a message is only written to a destination of the table");
    if (i < 0 || i > 2) return;
    logged[i]++;
    last_type[i] = type;
    last_sev[i] = sev;
    last_text[i][0] = message[0]; last_text[i][1] = message[1]; last_text[i][2] = message[2];
}
static struct log_destination *rec_open(const char *a) { (void)a; return NULL; }
static void rec_noop(struct log_destination *s) { (void)s; }
static struct log_destination_vtable rec_vtable = { "rec", rec_open, rec_noop, rec_noop, rec_log };

static struct log_destination *slots[3][LOG_NUM_SEVERITIES][3];
static unsigned table[3][LOG_NUM_SEVERITIES];

void harness(void)
{
    struct log_type *types[4];
    unsigned t, s, i, ft, sev, want, so;
    int verbosity;

    log_core = log_type_register("core", NULL);       /* log_init() */
    types[0] = log_core;
    types[1] = log_type_register("m", NULL);
    types[2] = log_default;                            /* the `*` facility */
    types[3] = log_type_register("u", NULL);           /* a facility the table says nothing about */
    for (i = 0; i < 3; i++)
        dest[i].vtbl = &rec_vtable;

    /* an arbitrary routing table */
    for (t = 0; t < 3; t++)
        for (s = 0; s < LOG_NUM_SEVERITIES; s++) {
            unsigned mask = vp_range(0, 7), n = 0;
            table[t][s] = mask;
            for (i = 0; i < 3; i++)
                if (mask & (1u << i))
                    slots[t][s][n++] = &dest[i];
            types[t]->logs[s].vec = slots[t][s];
            types[t]->logs[s].used = n;
            types[t]->logs[s].size = 3;
        }
#ifdef VERBOSE1
    verbosity = 1;
#else
    verbosity = 0;                                     /* what main() sets unless -d is given */
#endif
    log_set_verbosity(verbosity);

    ft = vp_range(0, 3);
    VP_ASSUME(ft != 2);                                /* nobody logs as `*` itself */
    sev = vp_range(0, 4);
    so = stdout_writes;
    log_message(types[ft], (enum log_severity)sev, "x%dz", 7);

    want = table[2][sev] | (ft < 2 ? table[ft][sev] : 0);
    for (i = 0; i < 3; i++) {
        unsigned n = ((table[2][sev] >> i) & 1) + ((ft < 2) ? ((table[ft][sev] >> i) & 1) : 0);
        VP_ASSERT((logged[i] != 0) == (((want >> i) & 1) != 0), "a message is written to a destination exactly when the table maps its facility or * at its severity there");
        VP_ASSERT(logged[i] == n, "once per mapping");
        if (logged[i])
            VP_ASSERT(last_type[i] == types[ft] && last_sev[i] == (enum log_severity)sev
                      && last_text[i][0] == 'x' && last_text[i][1] == '7' && last_text[i][2] == 'z',
                      "each line written is complete and attributed to its facility and severity");
    }
#ifdef VERBOSE1
    VP_ASSERT((stdout_writes - so) == (sev >= LOG_WARNING ? 1u : 0u), "verbosity 1 echoes warnings and errors to stdout, nothing else");
#else
    VP_ASSERT(stdout_writes == so, "C09: with verbosity 0 nothing from the logger reaches stdout");
#endif
    VP_COVER(want == 0, "message routed nowhere");
    VP_COVER(ft < 2 && table[ft][sev] != 0 && table[2][sev] != 0 && (table[ft][sev] & table[2][sev]) == 0, "message fanned out to its facility's and the * facility's destinations");
    VP_COVER(ft == 3 && want != 0, "facility without entries still reaches the * destinations");
}
