/* C_step_events.h - the event under test and the post-conditions (included by C_step.c) */

enum { K_OK, K_OK_ACCT, K_OK_EMPTY, K_NO, K_AGAIN, K_MORE, K_JUNK, K_NUM };

#ifndef LPW
#define LPW 8
#endif
static char arg1[80], arg2[80], arg3[80], tagbuf[24];
static struct snap snapA, snapB;
static enum iauth_xquery_type pre_type[NSVC + 1];
static unsigned pre_refs[NSVC + 1], pre_unlinked[NSVC + 1], pre_bad[NSVC + 1], pre_good[NSVC + 1], pre_good_na[NSVC + 1];
static char pre_account[ACCOUNTLEN + 1], pre_class[CLASSLEN + 1];

static void hex2(char *out, unsigned v)
{
    static const char hx[] = "0123456789abcdef";
    unsigned n = 0;
    if (v >= 16)
        out[n++] = hx[(v >> 4) & 15];
    out[n++] = hx[v & 15];
    out[n] = '\0';
}

/* prerequisites per protocol, as the property states them */
static unsigned prereq(enum iauth_xquery_type t)
{
    switch (t) {
    case LOGIN: return FLAG(IAUTH_GOT_PASSWORD);
    case LOGIN_IPR: return FLAG(IAUTH_GOT_PASSWORD) | FLAG(IAUTH_GOT_HOSTNAME) | FLAG(IAUTH_GOT_IDENT);
    case DRONECHECK:
    case COMBINED:
    default: return FLAG(IAUTH_GOT_HOSTNAME) | FLAG(IAUTH_GOT_IDENT) | FLAG(IAUTH_GOT_NICK) | FLAG(IAUTH_GOT_USER_INFO);
    }
}

void harness(void)
{
    struct obs o;
    struct ghost g;          /* expected ghost of A after the step */
    unsigned j, k;
    int expect_gone = 0;     /* A leaves the table without a verdict (D, T, replaced) */
    int expect_kill = 0;
    int expect_noop = 0;     /* the event must change nothing and emit nothing (C04/C08) */
    int is_pw_event = 0, pw_shape_ok = 0;
    int a_id; unsigned a_serial;
    struct vp_event *a_timer;
    const char *relay_text = NULL; char relay_cmd = 0;
    int expect_plus_x = 0;
    int vouched_now = 0;
    unsigned data_event = 0;

    build_state();
    memset(&O, 0, sizeof(O));
    g = G[0];
    a_id = G[0].id; a_serial = G[0].serial;
    a_timer = (struct vp_event *)R[0]->timeout;
    take_snap(&snapA, 0);
#if NREQ > 1
    take_snap(&snapB, 1);
#endif
    for (k = 0; k < NSVC; k++)
        if (SV[k]) { pre_type[k] = SV[k]->type; pre_refs[k] = SV[k]->refs; pre_unlinked[k] = SV[k]->unlinked; pre_bad[k] = SV[k]->bad;
                     pre_good[k] = SV[k]->good_acct; pre_good_na[k] = SV[k]->good_no_acct; }
    memcpy(pre_account, R[0]->account, sizeof(pre_account));
    memcpy(pre_class, R[0]->class, sizeof(pre_class));

    /* ------------------------- the event ------------------------- */
#if defined(EV_N)
    sym_str(arg1, LARG + 1, LARG); VP_ASSUME(arg1[0] != '\0');
    if (R[0]->hostname[0] != '\0')
        expect_noop = 1;        /* a second host name for the same client is not new data */
    else {
        g.got |= FLAG(IAUTH_GOT_HOSTNAME); data_event = 1;
    }
    parse_hostname(R[0], arg1);
#elif defined(EV_d)
    parse_no_hostname(R[0]);
    g.got |= FLAG(IAUTH_GOT_HOSTNAME); data_event = 1;
#elif defined(EV_n)
    sym_str(arg1, LARG + 1, LARG); VP_ASSUME(arg1[0] != '\0');
    parse_nick(R[0], arg1);
    g.got |= FLAG(IAUTH_GOT_NICK); data_event = 1;
#elif defined(EV_u)
    {
        int have = vp_bool();
        int empty_before = BITSET_GET(R[0]->flags, IAUTH_EMPTY_IDENT) != 0;
        int have_cli = R[0]->cli_username[0] != '\0';
        sym_str(arg1, LARG + 1, LARG); VP_ASSUME(arg1[0] != '\0');
        parse_ident(R[0], have ? arg1 : NULL);
        if (have || have_cli)
            g.got |= FLAG(IAUTH_GOT_IDENT);
        (void)empty_before;
        data_event = 1;
    }
#elif defined(EV_U)
    {
        char *av[3];
        int empty_ident = BITSET_GET(R[0]->flags, IAUTH_EMPTY_IDENT) != 0;
        sym_str(arg1, LARG + 1, LARG); VP_ASSUME(arg1[0] != '\0');
        sym_str(arg2, LARG + 1, LARG);
        av[0] = "U"; av[1] = arg1; av[2] = arg2;
        parse_user_info(R[0], 3, av);
        g.got |= FLAG(IAUTH_GOT_USER_INFO);
        if (empty_ident)
            g.got |= FLAG(IAUTH_GOT_IDENT);
        data_event = 1;
    }
#elif defined(EV_H)
    parse_hurry_up(R[0]);
    g.got |= (iauth_flags.bits[0] & GOTMASK) | FLAG(IAUTH_GOT_HURRY_UP); data_event = 1;
#elif defined(EV_P)
    {
        /* password text: symbolic bytes of a concrete length */
        unsigned i, set = 0, only = g.hidden_only, host = g.hidden_host;
        int st = 0;   /* 0 modes, 1 spaces after modes, 2 account, 3 after the account's space, 9 malformed */
        sym_str(arg1, LPW + 1, LPW);
        is_pw_event = 1;
        g.got |= FLAG(IAUTH_GOT_PASSWORD);
        if (g.more != 0 && g.has_pw) {
            /* answer to a challenge: forwarded to the challengers, nothing parsed */
        } else if (arg1[0] == '+' || arg1[0] == '-') {
            /* reference reading of "<modes> <account> <password>": one pass, bounded by the length */
            for (i = 0; i <= LPW; i++) {
                char c = arg1[i];
                if (st == 0) {
                    if (c == '\0') st = 9;
                    else if (c == ' ') st = 1;
                    else if (c == '+') set = 1;
                    else if (c == '-') set = 0;
                    else if (c == 'x') host = set;
                    else if (c == '!') only = set;
                } else if (st == 1) {
                    if (c == '\0') st = 9;
                    else if (c != ' ') st = 2;
                } else if (st == 2) {
                    if (c == '\0') st = 9;
                    else if (c == ' ') st = 3;
                }
            }
            if (st == 3) {
                pw_shape_ok = 1;
                g.hidden_only = (int)only;
                g.hidden_host = (int)host;
                g.has_pw = 1;
            }
        }
        parse_password(R[0], arg1);
        data_event = 1;
    }
#elif defined(EV_X) || defined(EV_x)
    {
        char *av[4];
        unsigned ks = vp_range(0, NSVC);      /* NSVC = a name nobody configured */
        unsigned tid = vp_range(0, 255), tser = vp_range(0, 255);
        unsigned kind = vp_range(0, K_NUM - 1);
        unsigned n;
        int applies;
        char t0 = (char)vp_u8(), t1 = (char)vp_u8(), t2 = (char)vp_u8();
        VP_ASSUME(t0 != 0 && t0 != ' ' && t0 != '\n' && t0 != '\r' && t1 != 0 && t1 != '\n' && t1 != '\r' && t2 != '\n' && t2 != '\r');
        /* routing tag "<id hex>_<serial hex>", optionally malformed */
        hex2(tagbuf, tid); n = (unsigned)strlen(tagbuf);
        tagbuf[n++] = vp_bool() ? '_' : '-';
        hex2(tagbuf + n, tser);
        av[0] = "X"; av[1] = (char *)svc_name[ks]; av[2] = tagbuf; av[3] = arg1;
        switch (kind) {
        case K_OK: strcpy(arg1, "OK"); break;
        case K_OK_ACCT: strcpy(arg1, "OK "); arg1[3] = t0; arg1[4] = t1; arg1[5] = t2; arg1[6] = '\0'; break;
        case K_OK_EMPTY: strcpy(arg1, "OK "); arg1[3] = ' '; arg1[4] = t1 == ' ' ? '\0' : t1; arg1[5] = '\0'; if (vp_bool()) arg1[3] = '\0'; break;
        case K_NO: strcpy(arg1, "NO "); arg1[3] = t0; arg1[4] = t1; arg1[5] = t2; arg1[6] = '\0'; break;
        case K_AGAIN: strcpy(arg1, "AGAIN "); arg1[6] = t0; arg1[7] = t1; arg1[8] = t2; arg1[9] = '\0'; break;
        case K_MORE: strcpy(arg1, "MORE "); arg1[5] = t0; arg1[6] = t1; arg1[7] = t2; arg1[8] = '\0'; break;
        default: arg1[0] = t0; arg1[1] = t1; arg1[2] = t2; arg1[3] = '\0';
                 VP_ASSUME(!(t0 == 'O' && t1 == 'K' && (t2 == 0 || t2 == ' ')) && !(t0 == 'N' && t1 == 'O' && t2 == ' ')); break;
        }
#if NREQ > 1
        /* a reply addressed to the bystander is this same event with the roles swapped */
        VP_ASSUME(!((int)tid == G[1].id && tser == G[1].serial));
#endif
        applies = tagbuf[n - 1] == '_' && (int)tid == a_id && tser == a_serial && ks < NSVC && (g.awaited & (1u << ks));
#ifdef EV_x
        av[0] = "x";
        parse_x_unlinked(4, av);
        if (applies) {
            g.awaited &= ~(1u << ks);
            if (pre_type[ks] != DRONECHECK) relay_cmd = 'C';
        } else
            expect_noop = 1;
#else
        parse_x_reply(4, av);
        if (!applies || kind == K_JUNK)
            expect_noop = 1;
        else {
            enum iauth_xquery_type ty = pre_type[ks];
            switch (kind) {
            case K_OK:
                g.awaited &= ~(1u << ks);
                break;
            case K_OK_ACCT:
            case K_OK_EMPTY:
                g.awaited &= ~(1u << ks);
                if (is_login_type(ty) && kind == K_OK_ACCT) {
                    vouched_now = !g.has_account;     /* the first stamp is the one that counts */
                    g.has_account = 1;
                    expect_plus_x = g.hidden_host || g.hidden_only;
                }
                break;
            case K_NO:
                expect_kill = 1;
                relay_cmd = 'k'; relay_text = arg1 + 3;
                break;
            case K_AGAIN:
                g.awaited &= ~(1u << ks);
                relay_cmd = 'C'; relay_text = arg1 + 6;
                break;
            case K_MORE:
                g.awaited &= ~(1u << ks);
                g.more |= 1u << ks;
                relay_cmd = 'C'; relay_text = arg1 + 5;
                break;
            default: break;
            }
        }
#endif
        VP_COVER(applies && kind == K_OK_ACCT, "awaited service vouches an account");
        VP_COVER(applies && kind == K_NO, "awaited service refuses");
        VP_COVER(!applies && tagbuf[n - 1] == '_' && (int)tid == a_id && tser != a_serial, "stale serial for a live id");
        VP_COVER(!applies && (int)tid == a_id && tser == a_serial && tagbuf[n - 1] == '_' && ks < NSVC, "right tag, service not awaited");
    }
#elif defined(EV_TIMER)
    VP_ASSUME(g.has_timer && !g.timed_out);
    /* fire the one-shot timer as libevent would: only an armed, unfreed event; its callback
     * and argument are what evtimer_new() was given (inv() has checked both) */
    VP_ASSERT(a_timer->armed && !vp_event_freed[0] && a_timer->cb == iauth_timeout && a_timer->arg == (void *)R[0], "environment: the timer fired is the request's own, still armed");
    a_timer->armed = 0;
    iauth_timeout(-1, EV_TIMEOUT, R[0]);
    g.timed_out = 1;
#elif defined(EV_D)
    parse_disconnect(R[0]);
    expect_gone = 1;
#elif defined(EV_T)
    parse_registered(R[0], 1);
    expect_gone = 1;
#elif defined(EV_C)
    {
        char *av[5];
        int nid = (int)vp_range(0, 255);
        av[0] = "C"; av[1] = "10.1.2.3"; av[2] = "4567"; av[3] = "10.9.8.7"; av[4] = "6667";
        extra_id = nid; extra_serial = iauth_serial + 1;
        parse_new_client(nid, 5, av);
        if (nid == a_id)
            expect_gone = 1;   /* re-announcing a live id replaces it */
        if (nid != a_id) {
            VP_ASSERT(live(0) && same_snap(&snapA, 0), "C07: announcing another client leaves this one untouched");
        }
        {
            struct iauth_request *nr = iauth_find_request(nid);
            struct ghost ng;
            void *key = &iauth_xquery;
            memset(&ng, 0, sizeof(ng));
            ng.id = nid; ng.serial = extra_serial; ng.has_timer = g.has_timer;
            VP_ASSERT(nr != NULL && nr->serial == extra_serial, "C10: an announced client is in the table under a fresh serial");
#if defined(CHECK_ALL) || defined(CHECK_C09)
            /* C09b: every later client-directed line echoes these three fields */
            if (nr) {
                VP_ASSERT(strcmp(nr->text_addr, "10.1.2.3") == 0, "C09: the address text kept for the client denotes the address the server announced");
                VP_ASSERT(nr->remote_port == 4567 && nr->client == nid, "C09: the port and id kept for the client are the announced ones");
            }
#endif
            if (nr) {
                struct iauth_xquery_client *nc = set_find(&nr->data, &key);
                VP_ASSERT(nc != NULL && inv(nr, nc, &ng), "base case: a freshly announced client satisfies the invariant");
            }
        }
        VP_COVER(nid == a_id, "re-announce a live id");
        VP_COVER(nid != a_id && (NREQ < 2 || nid != G[1].id), "announce a fresh id");
    }
#else
#error choose an event
#endif

    /* --------------------- observe the output --------------------- */
    VP_ASSERT(!vp_rec_overflow, "environment: capture slots sufficient");
    o = O;
    if (data_event || is_pw_event) {
        g.awaited |= o.queried[0];
        g.sent |= o.queried[0];
    }
    if (o.n_soft[0])
        g.soft_done = 1;
#ifdef EV_P
    if (snapA.cli.more_mask != 0 && snapA.cli.password[0] != '\0')
        g.more &= ~o.queried[0];
#endif

#ifdef REPLAY
    fprintf(stderr, "DBG pre : got=%#x awaited=%#x sent=%#x more=%#x timed_out=%d only=%d host=%d acct=%d soft=%d pw=%d timer=%d | holds=%d soft_holds=%d flags=%#x required=%#x\n",
            G[0].got, G[0].awaited, G[0].sent, G[0].more, G[0].timed_out, G[0].hidden_only, G[0].hidden_host, G[0].has_account, G[0].soft_done, G[0].has_pw, G[0].has_timer,
            snapA.req.holds, snapA.req.soft_holds, snapA.req.flags.bits[0], iauth_flags.bits[0]);
    for (k = 0; k < NSVC; k++)
        if (SV[k]) fprintf(stderr, "DBG svc%u: type=%d refs(pre)=%u freed=%d\n", k, (int)pre_type[k], pre_refs[k], iauth_xquery_services.vec[k] != SV[k]);
        else fprintf(stderr, "DBG svc%u: absent\n", k);
    fprintf(stderr, "DBG post: got=%#x awaited=%#x sent=%#x more=%#x timed_out=%d only=%d host=%d acct=%d pw=%d complete=%d\n",
            g.got, g.awaited, g.sent, g.more, g.timed_out, g.hidden_only, g.hidden_host, g.has_account, g.has_pw, ghost_complete(&g));
    fprintf(stderr, "DBG obs : accept=%u kill=%u soft=%u other=%u x=%u queried=%#x foreign=%u global=%u verdict=%d(%c) lines=%u gone=%d noop=%d kill?=%d arg1='%s'\n",
            o.n_accept[0], o.n_kill[0], o.n_soft[0], o.n_other[0], o.n_x[0], o.queried[0], o.n_foreign, o.n_global, o.verdict[0], o.verdict_cmd[0] ? o.verdict_cmd[0] : '-', vp_nline,
            expect_gone, expect_noop, expect_kill, arg1);
    if (live(0))
        fprintf(stderr, "DBG live: holds=%d soft_holds=%d flags=%#x ref=%#x sent=%#x more=%#x ok=%#x modes=%#x acct='%s' pw='%s'\n", R[0]->holds, R[0]->soft_holds, R[0]->flags.bits[0],
                CL[0]->ref_mask, CL[0]->sent_mask, CL[0]->more_mask, CL[0]->ok_mask, CL[0]->modes.bits[0], R[0]->account, CL[0]->password);
#endif

#if defined(CHECK_ALL) || defined(CHECK_C01)
    /* ====================== C01: one verdict, then silence ====================== */
    for (j = 0; j < NREQ; j++) {
        VP_ASSERT(o.n_accept[j] + o.n_kill[j] <= 1, "C01: at most one final verdict per instance");
        VP_ASSERT(o.n_soft[j] <= 1, "C01: at most one soft-done per step");
        VP_ASSERT(o.n_soft[j] == 0 || !G[j].soft_done, "C01: soft-done is not repeated for an instance that already got one");
        VP_ASSERT(o.n_after_verdict[j] == 0, "C01: nothing names the client after its verdict");
    }
    VP_ASSERT(o.n_foreign == 0, "C01: no line names an id or tag that is not live");
    if (expect_gone)
        VP_ASSERT(o.n_accept[0] + o.n_kill[0] + o.n_soft[0] + o.n_other[0] + o.n_x[0] == 0,
                  "C01: nothing names a client in the step that withdraws it");
    if (o.verdict[0] || expect_gone) {
#ifdef EV_C
        if (extra_id == a_id) {
            struct iauth_request *nr = iauth_find_request(a_id);
            VP_ASSERT(nr != NULL && nr->serial == extra_serial, "C10: re-announcing a live id replaces it by the new instance");
        } else
#endif
        VP_ASSERT(iauth_find_request(a_id) == NULL, "C01: a decided or withdrawn client is no longer in the table");
    } else
        VP_ASSERT(live(0), "C01: a client without verdict stays in the table");

#endif

#if defined(CHECK_ALL) || defined(CHECK_C07)
    /* ====================== C07: bystander untouched ====================== */
#if NREQ > 1
#ifdef EV_C
    if (extra_id != G[1].id)
#endif
    {
        VP_ASSERT(o.n_accept[1] + o.n_kill[1] + o.n_soft[1] + o.n_other[1] + o.n_x[1] == 0, "C07: no line about a client whose events these are not");
        VP_ASSERT(live(1), "C07: other clients stay in the table");
        VP_ASSERT(live(1) && same_snap(&snapB, 1), "C07: other clients' records are byte-identical");
        VP_ASSERT(live(1) && inv(R[1], CL[1], &G[1]), "C07: other clients' invariant is preserved");
    }
#endif

#endif

#if defined(CHECK_ALL) || defined(CHECK_C04) || defined(CHECK_C08)
    /* ====================== C04 / C08b: stray lines are no-ops ====================== */
    if (expect_noop) {
        VP_ASSERT(vp_nline == 0, "C04: a stray reply (no awaited service of a current instance) or repeated datum produces no output");
        VP_ASSERT(live(0) && same_snap(&snapA, 0), "C04: such a line changes nothing in the client it seems to name");
        for (k = 0; k < NSVC; k++)
            VP_ASSERT(iauth_xquery_services.vec[k] == SV[k], "C04: such a reply releases no service record");
        for (k = 0; k < NSVC; k++)
            if (SV[k] && iauth_xquery_services.vec[k] == SV[k])
                VP_ASSERT(SV[k]->refs == pre_refs[k] && SV[k]->unlinked == pre_unlinked[k] && SV[k]->bad == pre_bad[k]
                          && SV[k]->good_acct == pre_good[k] && SV[k]->good_no_acct == pre_good_na[k],
                          "C04: such a reply changes no service record");
    }

#endif

#if defined(CHECK_ALL) || defined(CHECK_C02) || defined(CHECK_C03)
    /* ====================== C02 / C03: acceptance exactly when complete ====================== */
    if (!expect_gone && !expect_noop) {
        int complete = ghost_complete(&g);
        if (expect_kill) {
            VP_ASSERT(o.n_kill[0] == 1 && o.n_accept[0] == 0, "C02: a client refused by a service it was submitted to is rejected, never accepted");
        } else {
            VP_ASSERT(o.n_kill[0] == 0, "C05: no rejection without a refusal");
            if (o.n_accept[0])
                VP_ASSERT(complete, "C02: acceptance only with all required data, no unanswered query (or expired timeout) and no unmet +!");
            if (complete)
                VP_ASSERT(o.n_accept[0] == 1, "C03: the verdict comes in the step that completes the conditions");
            if (!complete && !o.verdict[0]) {
                VP_ASSERT(live(0) && inv(R[0], CL[0], &g), "C03: hold accounting still says exactly what is pending (invariant preserved)");
            }
        }
    }

#endif

#if defined(CHECK_ALL) || defined(CHECK_C05)
    /* ====================== C05: verdict content ====================== */
    if (o.n_accept[0]) {
        VP_ASSERT((o.verdict_cmd[0] == 'R') == (g.has_account != 0), "C05: account stamp reported exactly when a login-type service vouched one");
        VP_ASSERT(strcmp(o.verdict_class[0], pre_class) == 0, "C05: the class reported is the one assigned to this client");
        if (o.verdict_cmd[0] == 'R') {
            const char *acct = o.verdict_acct[0];
            if (vouched_now)
                VP_ASSERT(acct[0] == arg1[3] && (arg1[4] == ' ' ? acct[1] == '\0' : (acct[1] == arg1[4] && (arg1[5] == ' ' || arg1[5] == '\0' ? acct[2] == '\0' : acct[2] == arg1[5]))),
                          "C05: the reported account is the vouched text up to the first space");
            else
                VP_ASSERT(strcmp(acct, pre_account) == 0, "C05: the reported account is the one vouched earlier");
        }
    }
    if (relay_cmd && relay_text) {
        const char *t = relay_cmd == 'k' ? o.k_text[0] : o.C_text[0];
        unsigned n = relay_cmd == 'k' ? o.n_kill[0] : o.n_C[0];
        VP_ASSERT(n == 1 && t != NULL, "C05: refusal / challenge text is relayed to the client, once");
        if (n == 1 && t)
            VP_ASSERT(strcmp(t, relay_text) == 0, "C05: refusal / challenge text is relayed verbatim");
    }
    if (!relay_cmd)
        VP_ASSERT(o.n_C[0] == 0, "C05: no challenge line without a challenge, retry or unlinked notice");
#ifdef EV_x
    VP_ASSERT((o.n_C[0] == 1) == (relay_cmd == 'C') && o.n_C[0] <= 1, "C05: an unlinked login-type service is reported to the client it was asked about, and only then");
#endif
    if (expect_plus_x) {
        VP_ASSERT(o.n_M[0] == 1 && o.M_text[0] != NULL && strcmp(o.M_text[0], "+x") == 0, "C05: +x is sent when an account is vouched for a client that asked for host hiding");
    }
#if defined(EV_X) || defined(EV_x)
    if (!expect_plus_x)
        VP_ASSERT(o.n_M[0] == 0, "C05: no user mode without a vouched account and a hiding request");
#endif

#endif

#if defined(CHECK_ALL) || defined(CHECK_C06)
    /* ====================== C06: queries are timely ====================== */
    if (data_event && !expect_gone) {
        unsigned want = 0;
#ifdef EV_P
        if (snapA.cli.more_mask != 0 && snapA.cli.password[0] != '\0') {
            for (k = 0; k < NSVC; k++)
                if ((snapA.cli.more_mask & (1u << k)) && SV[k] && SV[k]->configured)
                    want |= 1u << k;
        } else if (!pw_shape_ok)
            want = 0;
        else
#endif
        for (k = 0; k < NSVC; k++) {
            enum iauth_xquery_type ty;
            if (!SV[k] || !SV[k]->configured)
                continue;
            ty = SV[k]->type;
            if ((snapA.cli.sent_mask & (1u << k)) && !(is_pw_event && pw_shape_ok && ty != DRONECHECK))
                continue;
            if ((ty == LOGIN || ty == LOGIN_IPR) && !g.has_pw)
                continue;
            if (prereq(ty) & ~g.got & ~(ty == COMBINED ? FLAG(IAUTH_GOT_PASSWORD) : 0u))
                continue;
            want |= 1u << k;
        }
        VP_ASSERT(o.queried[0] == want, "C06: exactly the services whose protocol's data is now complete are queried, not earlier and not skipped");
        /* ... and each query carries this client's own data, within the length limits */
        if (live(0)) {
            char uname[USERLEN + 2];
            const char *host = R[0]->hostname[0] ? R[0]->hostname : R[0]->text_addr;
            unsigned q;
            memset(uname, 0, sizeof(uname));
            if (R[0]->auth_username[0] != '\0') {
                for (q = 0; q < USERLEN && R[0]->auth_username[q]; q++) uname[q] = R[0]->auth_username[q];
            } else if (R[0]->cli_username[0] == '~') {
                for (q = 0; q < USERLEN && R[0]->cli_username[q]; q++) uname[q] = R[0]->cli_username[q];
            } else if (R[0]->cli_username[0] != '\0') {
                uname[0] = '~';
                for (q = 0; q + 1 < USERLEN && R[0]->cli_username[q]; q++) uname[q + 1] = R[0]->cli_username[q];
            }
            for (k = 0; k < NSVC; k++) {
                enum iauth_xquery_type ty;
                if (!(o.queried[0] & (1u << k)) || !SV[k])
                    continue;
                ty = SV[k]->type;
#ifdef EV_P
                if (snapA.cli.more_mask != 0 && snapA.cli.password[0] != '\0') {
                    VP_ASSERT(o.xq_fmt0[k][2] == 'M' && strncmp(o.xq_arg[k][2][0], arg1, 13) == 0, "C06: the answer to a challenge is forwarded as given");
                    continue;
                }
#endif
                if (ty == DRONECHECK || ty == COMBINED) {
                    VP_ASSERT(o.xq_fmt0[k][0] == 'C' && o.xq_nargs[k][0] == 5, "C06: dronecheck / combined services get a CHECK line");
                    VP_ASSERT(strncmp(o.xq_arg[k][0][0], R[0]->nickname, 13) == 0, "C06: CHECK carries the client's nick");
                    VP_ASSERT(strncmp(o.xq_arg[k][0][1], uname, 13) == 0, "C06: CHECK carries the ident, else the claimed user name marked ~, within USERLEN");
                    VP_ASSERT(strncmp(o.xq_arg[k][0][2], R[0]->text_addr, 13) == 0, "C06: CHECK carries the client's address");
                    VP_ASSERT(strncmp(o.xq_arg[k][0][3], host, 13) == 0, "C06: CHECK carries the host name, else the address");
                    VP_ASSERT(strncmp(o.xq_arg[k][0][4], R[0]->realname, 13) == 0, "C06: CHECK carries the real name");
                } else
                    VP_ASSERT(o.xq_fmt0[k][0] == 0, "C06: login services get no CHECK line");
                if (ty == LOGIN || (ty == COMBINED && CL[0]->password[0] != '\0')) {
                    VP_ASSERT(o.xq_fmt0[k][1] == 'L' && o.xq_nargs[k][1] == 1, "C06: login / combined services get a LOGIN line when a password is known");
                    VP_ASSERT(strncmp(o.xq_arg[k][1][0], CL[0]->password, 13) == 0, "C06: LOGIN carries the account and password as the client sent them");
                } else if (ty == LOGIN_IPR) {
                    VP_ASSERT(o.xq_fmt0[k][1] == '2' && o.xq_nargs[k][1] == 4, "C06: login-ipr services get a LOGIN2 line");
                    VP_ASSERT(strncmp(o.xq_arg[k][1][0], R[0]->text_addr, 13) == 0 && strncmp(o.xq_arg[k][1][1], host, 13) == 0
                              && strncmp(o.xq_arg[k][1][2], uname, 13) == 0 && strncmp(o.xq_arg[k][1][3], CL[0]->password, 13) == 0,
                              "C06: LOGIN2 carries address, host, user name and credentials of this client");
                } else
                    VP_ASSERT(o.xq_fmt0[k][1] == 0, "C06: no LOGIN line without a password or for a dronecheck service");
            }
        }
#ifdef EV_P
        if (pw_shape_ok && live(0)) {
            /* what is stored and forwarded is the text after the modes: "<account> <password>" */
            unsigned st2 = 0, q;
            for (q = 0; q <= LPW; q++) {
                if (st2 == 0 && arg1[q] == ' ') st2 = 1;
                else if (st2 == 1 && arg1[q] != ' ') { VP_ASSERT(strcmp(CL[0]->password, arg1 + q) == 0, "C06: the stored credentials are the text after the mode prefix"); st2 = 2; }
            }
        }
#endif
#ifdef EV_P
        if (!pw_shape_ok && !(snapA.cli.more_mask != 0 && snapA.cli.password[0] != '\0')) {
            VP_ASSERT(o.n_x[0] == 0, "C06: a password lacking the <modes> <account> <password> shape is never forwarded");
            VP_ASSERT(live(0) && strcmp(CL[0]->password, snapA.cli.password) == 0, "C06: such a password is not stored either");
        }
#endif
    }

#endif

#if defined(CHECK_ALL) || defined(CHECK_C10)
    /* ====================== C10: bookkeeping ====================== */
    {
        unsigned expect_live = NREQ;
        if (o.verdict[0] || expect_gone) expect_live--;
#ifdef EV_C
        expect_live++;
#if NREQ > 1
        if (extra_id == G[1].id) expect_live--;   /* the bystander's id was re-announced */
#endif
#endif
        VP_ASSERT(set_size(iauth_reqs) == expect_live, "C10: requests in use = announced and not withdrawn, registered or decided");
        VP_ASSERT(core_stats.n_req_allocs - core_stats.n_req_frees
#ifdef EV_C
                  - ((extra_id == a_id || (NREQ > 1 && extra_id == G[NREQ - 1].id)) ? 1 : 0)
#endif
                  == expect_live, "C10: alloc/free counters balance with the table (a replaced announcement is the one documented gap)");
        if (g.has_timer) {
            /* the timer created for A is event #0 */
            if (o.verdict[0] || expect_gone)
                VP_ASSERT(vp_event_freed[0], "C10: the timer of a finished request is released in the same step");
            else
                VP_ASSERT(!vp_event_freed[0], "C10: the timer of a live request is kept");
        }
    }

#endif

    /* ====================== induction (part of every property's check) ====================== */
    if (!o.verdict[0] && !expect_gone)
        VP_ASSERT(live(0) && inv(R[0], CL[0], &g), "induction: the client the event was about satisfies the invariant again");
    VP_ASSERT(svc_inv_post(), "induction: the service table satisfies its invariant again");

#if defined(EV_N) || defined(EV_d) || defined(EV_n) || defined(EV_u) || defined(EV_U) || defined(EV_H) || defined(EV_X) || defined(EV_x) || defined(EV_TIMER)
    VP_COVER(o.n_accept[0] == 1 && o.verdict_cmd[0] == 'D', "client accepted without account");
    VP_COVER(o.n_accept[0] == 1 && o.verdict_cmd[0] == 'R', "client accepted with account");
#endif
#if defined(EV_N) || defined(EV_d) || defined(EV_n) || defined(EV_u) || defined(EV_U) || defined(EV_H) || defined(EV_P)
    VP_COVER(o.n_soft[0] == 1 || o.n_x[0] >= 1, "query sent");
    VP_COVER(o.n_x[0] >= 1 && o.n_soft[0] == 1, "query sent and soft-done in the same step");
#endif
#if !defined(EV_D) && !defined(EV_T)
    VP_COVER(!o.verdict[0] && !expect_gone && !expect_noop, "event absorbed, client keeps waiting");
#endif
    VP_COVER(1, "end of step reached");
}
