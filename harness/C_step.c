/* C_step.c - inductive step for the protocol properties C01 C02 C03 C04 C05 C06 C07 C10.
 *
 * PRE:   a table of NREQ live requests (A = the one the event is about, B = a
 *        bystander) and NSVC services, built directly on the heap; EVERY scalar
 *        field of every request / xquery client record / service record is
 *        symbolic, constrained only by the representation invariant inv().
 * STEP:  ONE event (selected per query by -DEV_...), with symbolic payload,
 *        executed by calling the real handler the dispatcher would call.
 * POST:  the per-step obligations of the property on the captured output lines
 *        (decision layer, env/rec.h) and inv() again on every request still live.
 * Since the pre-state ranges over all inv() states, the step covers histories of
 * any length, any number of earlier clients and any id reuse.
 *
 * Real code: modules/iauth_core.c, iauth_xquery.c, iauth_class.c (via tu/iauth_all.c),
 *            iauth_misc.c, src/set.c, src/bitset.c, src/common.c.
 */
#define VP_STEP_HARNESS
#include "tu/iauth_all.c"
#include "env/iauth_env.h"
#include "vp.h"

#ifndef NREQ
#define NREQ 2
#endif
#ifndef NSVC
#define NSVC 2
#endif
#ifndef ID_A
#define ID_A 7
#endif
#ifndef ID_B
#define ID_B 12
#endif
#ifndef KSTR
#define KSTR 3          /* symbolic bytes in each pre-state string */
#endif
#ifndef LARG
#define LARG 3          /* symbolic bytes in each event argument */
#endif
#define SVC_ALL ((1u << NSVC) - 1)
#define FLAG(f) (1u << (f))
#define GOTMASK (FLAG(IAUTH_GOT_HOSTNAME) | FLAG(IAUTH_GOT_IDENT) | FLAG(IAUTH_GOT_NICK) | \
                 FLAG(IAUTH_GOT_USER_INFO) | FLAG(IAUTH_GOT_PASSWORD) | FLAG(IAUTH_GOT_HURRY_UP))

struct event_base *ev_base;

/* ------------------------------------------------------------------ */
/* ghost: what an observer of the channel knows about one instance     */
struct ghost {
    int id;
    unsigned serial;
    unsigned got;            /* data items delivered (flag bits) */
    unsigned awaited;        /* services that owe this instance a final answer */
    unsigned sent;           /* services already queried */
    unsigned more;           /* services that challenged (MORE) and were not yet answered */
    int timed_out;           /* the request timer has fired */
    int hidden_only;         /* +! in force */
    int hidden_host;         /* +x in force */
    int has_account;         /* an account stamp is recorded */
    int soft_done;           /* 'd' was sent */
    int has_pw;              /* a well-formed password is stored */
    int has_timer;
};

static struct iauth_request *R[2];
static struct iauth_xquery_client *CL[2];
static struct ghost G[2];
static struct iauth_xquery_service *SV[NSVC + 1];
static struct iauth_xquery_service *svc_vec[4];
static struct conf_node_string timeout_node;
/* one-letter service names: struct iauth_xquery_service declares name[1]; the terminating
 * NUL then lies in the (zeroed) tail of the typed allocation */
static const char *const svc_name[3] = { "a", "b", "z" };

struct vp_srv_elt { struct iauth_xquery_service srv; char more[8]; };

static void sym_str(char *buf, unsigned cap, unsigned k)
{
    /* any NUL-terminated content of at most k bytes (rest of the buffer zero, as
     * strncpy into a zeroed buffer leaves it) */
    unsigned i, open = 1;
    for (i = 0; i < cap; i++) {
        char c = 0;
        if (i < k) {
            c = (char)vp_u8();
            if (!open) VP_ASSUME(c == 0);
            if (c == 0) open = 0;
            VP_ASSUME(c != '\n' && c != '\r');
        }
        buf[i] = c;
    }
}

static int is_login_type(enum iauth_xquery_type t) { return t == LOGIN || t == LOGIN_IPR || t == COMBINED; }

/* ------------------------------------------------------------------ */
/* representation invariant of one live request, tied to its ghost     */
static int inv(const struct iauth_request *r, const struct iauth_xquery_client *c, const struct ghost *g)
{
    unsigned fl = r->flags.bits[0];
    int complete;
    if (r->client != g->id || r->serial != g->serial) return 0;
    if (r->serial == 0 || r->serial > iauth_serial) return 0;
    if (fl & FLAG(IAUTH_RESPONDED)) return 0;
    if (fl >> IAUTH_NUM_FLAGS) return 0;
    if ((fl & GOTMASK) != g->got) return 0;
    if (((fl & FLAG(IAUTH_SOFT_DONE)) != 0) != (g->soft_done != 0)) return 0;
    if (((fl & FLAG(IAUTH_TIMED_OUT)) != 0) != (g->timed_out != 0)) return 0;
    if (r->hostname[0] != '\0' && !(fl & FLAG(IAUTH_GOT_HOSTNAME))) return 0;
    if (r->auth_username[0] != '\0' && !(fl & FLAG(IAUTH_GOT_IDENT))) return 0;
    if ((fl & FLAG(IAUTH_GOT_HURRY_UP)) && (iauth_flags.bits[0] & ~fl)) return 0;
    if (r->state != IAUTH_REGISTER && r->state != IAUTH_HURRY) return 0;
    if ((r->state == IAUTH_HURRY) != ((fl & FLAG(IAUTH_GOT_HURRY_UP)) != 0)) return 0;
    /* strings are terminated inside their buffers */
    if (r->hostname[HOSTLEN] || r->cli_username[USERLEN] || r->auth_username[USERLEN] || r->nickname[NICKLEN]
        || r->realname[REALLEN] || r->account[ACCOUNTLEN] || r->class[CLASSLEN] || r->text_addr[IRC_NTOP_MAX - 1])
        return 0;
    if (c->password[sizeof(c->password) - 1]) return 0;
    /* xquery client record mirrors the ghost */
    if (c->key != (void *)&iauth_xquery) return 0;
    if (c->ref_mask != g->awaited || c->sent_mask != g->sent || c->more_mask != g->more) return 0;
    if ((c->sent_mask | c->ok_mask) & ~SVC_ALL) return 0;
    if ((c->ref_mask & ~c->sent_mask) || (c->more_mask & ~c->sent_mask) || (c->ok_mask & ~c->sent_mask)) return 0;
    if ((BITSET_GET(c->modes, IAUTH_XQUERY_HIDDEN_ONLY) != 0) != (g->hidden_only != 0)) return 0;
    if ((BITSET_GET(c->modes, IAUTH_XQUERY_HIDDEN_HOST) != 0) != (g->hidden_host != 0)) return 0;
    if (c->modes.bits[0] >> IAUTH_XQUERY_NUM_MODES) return 0;
    if ((r->account[0] != '\0') != (g->has_account != 0)) return 0;
    if ((c->password[0] != '\0') != (g->has_pw != 0)) return 0;
    if (g->has_pw && !(fl & FLAG(IAUTH_GOT_PASSWORD))) return 0;
    /* hold counters say exactly what is pending */
    if (r->holds != ((g->hidden_only && !g->has_account) ? 1 : 0)) return 0;
    /* one soft hold while any service is awaited; once the timeout has expired the counter
     * was zeroed behind the module's back, so it may lag by one - and no longer matters */
    if (!g->timed_out) {
        if (r->soft_holds != (g->awaited != 0 ? 1 : 0)) return 0;
    } else if (r->soft_holds != (g->awaited != 0 ? 1 : 0) && r->soft_holds != (g->awaited != 0 ? 0 : -1))
        return 0;
    /* timer */
    if (g->has_timer) {
        const struct vp_event *ev = (const struct vp_event *)r->timeout;
        if (!ev || ev->arg != (void *)r || ev->cb != iauth_timeout) return 0;
        if ((ev->armed != 0) != (g->timed_out == 0)) return 0;
    } else if (r->timeout != NULL || g->timed_out)
        return 0;
    /* no client whose conditions are complete is still waiting (C03) */
    complete = (r->holds == 0) && !(iauth_flags.bits[0] & ~fl);
    if (complete && (r->soft_holds < 1 || g->timed_out)) return 0;
    return 1;
}

static int svc_inv(void)
{
    unsigned k, j;
    for (k = 0; k < NSVC; k++) {
        unsigned need = 0;
        if (!SV[k]) continue;
        for (j = 0; j < NREQ; j++)
            if (G[j].awaited & (1u << k)) need++;
        if (SV[k]->refs < need) return 0;
        if ((unsigned)SV[k]->type > COMBINED) return 0;
        if (SV[k]->configured != 0 && SV[k]->configured != 1) return 0;
        if (!SV[k]->configured && SV[k]->refs == 0) return 0; /* would have been freed */
    }
    return 1;
}

/* the same for the post-state: a service may have been released (slot NULL), ghosts of
 * requests that left the table no longer count */
static int svc_inv_post(void)
{
    unsigned k, j;
    for (k = 0; k < NSVC; k++) {
        struct iauth_xquery_service *sv = iauth_xquery_services.vec[k];
        unsigned need = 0;
        if (!sv) continue;
        if (sv != SV[k]) return 0;
        for (j = 0; j < NREQ; j++) {
            struct iauth_request *r = iauth_find_request(G[j].id);
            if (r && r == R[j] && (CL[j]->ref_mask & (1u << k))) need++;
        }
        if (sv->refs < need) return 0;
        if ((unsigned)sv->type > COMBINED) return 0;
        if (!sv->configured && sv->refs == 0) return 0;
    }
    return 1;
}

/* ------------------------------------------------------------------ */
static void build_state(void)
{
    unsigned k, j;

    vp_rec_reset();
    ctype_init();
    iauth_reqs = malloc(sizeof(struct set));
    VP_ASSUME(iauth_reqs != NULL);
    iauth_reqs->compare = set_compare_int; iauth_reqs->cleanup = iauth_req_cleanup;
    iauth_reqs->root = NULL; iauth_reqs->count = 0;
    iauth_modules = malloc(sizeof(struct set));
    VP_ASSUME(iauth_modules != NULL);
    iauth_modules->compare = set_compare_charp; iauth_modules->cleanup = NULL;
    iauth_modules->root = NULL; iauth_modules->count = 0;
    timeout_node.parsed.p_interval = vp_bool() ? 30 : 0;
    iauth_conf_timeout = &timeout_node;

    /* the real constructors of the decision modules (configuration stubbed empty) */
    xquery_module_constructor("iauth_xquery");
#ifdef WITH_CLASS
    class_module_constructor("iauth_class");
#endif
    calc_iauth_flags();

    /* services */
    for (k = 0; k < NSVC; k++) {
        if (vp_bool()) {
            struct vp_srv_elt *e = calloc(1, sizeof(*e));
            VP_ASSUME(e != NULL);
            SV[k] = &e->srv;
            SV[k]->name[0] = svc_name[k][0];
            SV[k]->type = (enum iauth_xquery_type)vp_range(0, 3);
            SV[k]->configured = vp_bool();
            SV[k]->refs = vp_range(0, 3);
            SV[k]->queries = vp_u8(); SV[k]->good_acct = vp_u8(); SV[k]->good_no_acct = vp_u8();
            SV[k]->bad = vp_u8(); SV[k]->bad_acct = vp_u8(); SV[k]->unlinked = vp_u8();
        } else
            SV[k] = NULL;
        svc_vec[k] = SV[k];
    }
#ifdef VP_HEAP_SVCVEC
    /* the teardown harness lets the module free its own table */
    {
        struct iauth_xquery_service **hv = malloc(4 * sizeof(*hv));
        VP_ASSUME(hv != NULL);
        for (k = 0; k < 4; k++) hv[k] = k < NSVC ? SV[k] : NULL;
        iauth_xquery_services.vec = hv;
    }
#else
    iauth_xquery_services.vec = svc_vec;
#endif
    iauth_xquery_services.used = NSVC;
    iauth_xquery_services.size = 4;

    iauth_serial = vp_range(2, 200);
    vp_now = 1000;

    for (j = 0; j < NREQ; j++) {
        struct vp_req_elt *e = calloc(1, sizeof(*e));
        struct vp_cli_elt *ce = calloc(1, sizeof(*ce));
        struct iauth_request *r;
        struct iauth_xquery_client *c;
        struct ghost *g = &G[j];
        VP_ASSUME(e != NULL && ce != NULL);
        r = R[j] = &e->req;
        c = CL[j] = &ce->cli;
        /* ids are concrete (the code only compares and prints them): keeps the table's
         * tree shape, and with it every request pointer, concrete for the symbolic execution */
        r->client = (j == 0) ? ID_A : ID_B;
        r->serial = vp_range(1, 200);
        r->holds = vp_i32();
        r->soft_holds = vp_i32();
        r->start_time = 990;
        r->flags.bits[0] = vp_u32();
        r->state = (enum iauth_client_state)vp_range(0, 3);
        vp_bytes(&r->remote_addr, sizeof(r->remote_addr));
        vp_bytes(&r->local_addr, sizeof(r->local_addr));
        r->remote_port = vp_u16();
        r->local_port = vp_u16();
        sym_str(r->hostname, sizeof(r->hostname), KSTR);
        sym_str(r->cli_username, sizeof(r->cli_username), KSTR);
        sym_str(r->auth_username, sizeof(r->auth_username), KSTR);
        sym_str(r->nickname, sizeof(r->nickname), KSTR);
        sym_str(r->realname, sizeof(r->realname), KSTR);
        sym_str(r->account, sizeof(r->account), KSTR);
        sym_str(r->class, sizeof(r->class), 2);
        sym_str(r->text_addr, sizeof(r->text_addr), KSTR);
        r->data.compare = set_compare_voidp;
        c->key = &iauth_xquery;
        c->modes.bits[0] = vp_u8();
        c->sent_mask = vp_u8(); c->ref_mask = vp_u8(); c->more_mask = vp_u8(); c->ok_mask = vp_u8();
        sym_str(c->password, sizeof(c->password), KSTR);
        set_insert(&r->data, &ce->node);
        /* ghost = what the fields say; inv() then constrains the fields */
        g->id = r->client; g->serial = r->serial;
        g->got = r->flags.bits[0] & GOTMASK;
        g->awaited = c->ref_mask; g->sent = c->sent_mask; g->more = c->more_mask;
        g->hidden_only = BITSET_GET(c->modes, IAUTH_XQUERY_HIDDEN_ONLY) != 0;
        g->hidden_host = BITSET_GET(c->modes, IAUTH_XQUERY_HIDDEN_HOST) != 0;
        g->has_account = r->account[0] != '\0';
        g->soft_done = BITSET_GET(r->flags, IAUTH_SOFT_DONE) != 0;
        g->has_pw = c->password[0] != '\0';
        g->has_timer = timeout_node.parsed.p_interval > 0;
        g->timed_out = g->has_timer ? vp_bool() : 0;
        if (g->has_timer) {
            r->timeout = evtimer_new(ev_base, iauth_timeout, r);
            ((struct vp_event *)r->timeout)->armed = !g->timed_out;
        }
        if (j == 1)
            VP_ASSUME(R[1]->client != R[0]->client && R[1]->serial != R[0]->serial);
        VP_ASSUME(inv(r, c, g));
        /* awaited services exist */
        for (k = 0; k < NSVC; k++)
            if (g->awaited & (1u << k))
                VP_ASSUME(SV[k] != NULL);
        set_insert(iauth_reqs, &e->node);
    }
    VP_ASSUME(svc_inv());
    core_stats.n_req_allocs = vp_range(NREQ, 1000);
    core_stats.n_req_frees = core_stats.n_req_allocs - NREQ;
    vp_rec_reset();
}

/* ------------------------------------------------------------------ */
/* online monitor over the completed lines (called by env/rec.c at every fputs) */
struct obs {
    unsigned n_accept[2], n_kill[2], n_soft[2], n_other[2];   /* client-directed lines per instance */
    unsigned n_after_verdict[2];    /* lines naming the instance after its verdict line */
    unsigned queried[2];            /* services named in X lines carrying the instance's tag */
    unsigned n_x[2];
    unsigned n_foreign;             /* client-directed lines / tags naming nobody we know */
    unsigned n_global;              /* other lines */
    int verdict[2];                 /* a verdict line was seen */
    char verdict_cmd[2];
    unsigned verdict_nargs[2];
    char verdict_acct[2][8], verdict_class[2][8];   /* copied when the line is written: the request is freed right after */
    unsigned n_C[2], n_M[2], n_U[2];
    const char *k_text[2], *C_text[2], *M_text[2];
    const char *addr_used[2]; unsigned port_used[2]; int addr_ok[2];
    /* query texts per service for the target instance, copied when the line is written
     * (arguments may live on the sender's stack): [0] CHECK, [1] LOGIN/LOGIN2, [2] MORE */
    char xq_fmt0[NSVC][3];          /* first character of the inner format, 0 if none */
    unsigned xq_nargs[NSVC][3];
    char xq_arg[NSVC][3][5][14];
    unsigned xq_n[NSVC];
};
static struct obs O;
static int extra_id = -1000;
static unsigned extra_serial;

static int str_eq(const char *a, const char *b) { return strcmp(a, b) == 0; }

void vp_on_line(const struct vp_line *l)
{
    unsigned j;
    int who = -1;
    if (l->has_req) {
        for (j = 0; j < NREQ; j++)
            if (l->client == G[j].id)
                who = (int)j;
        if (who < 0) {
            if (l->client != extra_id)
                O.n_foreign++;
            return;
        }
        if (O.verdict[who])
            O.n_after_verdict[who]++;
        O.addr_used[who] = l->addr;
        O.port_used[who] = l->port;
        if (l->cmd == 'D' || l->cmd == 'R' || l->cmd == 'k') {
            if (l->cmd == 'k') {
                O.n_kill[who]++;
                O.k_text[who] = l->body.nargs == 1 ? l->body.a[0].s : NULL;
            } else
                O.n_accept[who]++;
            if (!O.verdict[who]) {
                unsigned q;
                const char *a0 = l->body.nargs >= 1 ? l->body.a[0].s : "";
                const char *a1 = l->body.nargs >= 2 ? l->body.a[1].s : "";
                O.verdict[who] = 1;
                O.verdict_cmd[who] = l->cmd;
                O.verdict_nargs[who] = l->body.nargs;
                /* R <account> [<class>] / D [<class>] */
                if (l->cmd == 'D') { a1 = a0; a0 = ""; }
                for (q = 0; q < 7 && a0[q]; q++) O.verdict_acct[who][q] = a0[q];
                O.verdict_acct[who][q] = '\0';
                for (q = 0; q < 7 && a1[q]; q++) O.verdict_class[who][q] = a1[q];
                O.verdict_class[who][q] = '\0';
            }
        } else if (l->cmd == 'd')
            O.n_soft[who]++;
        else {
            O.n_other[who]++;
            if (l->cmd == 'C') { O.n_C[who]++; O.C_text[who] = l->body.nargs == 1 ? l->body.a[0].s : NULL; }
            if (l->cmd == 'M') { O.n_M[who]++; O.M_text[who] = l->body.nargs == 1 ? l->body.a[0].s : NULL; }
            if (l->cmd == 'U') O.n_U[who]++;
        }
    } else if (l->cmd == 'X') {
        const char *sname = l->body.a[0].s;
        for (j = 0; j < NREQ; j++)
            if (l->have_tag && l->tag_id == G[j].id && l->tag_serial == (long)G[j].serial)
                who = (int)j;
        if (who < 0) {
            if (!(l->have_tag && l->tag_id == extra_id && l->tag_serial == (long)extra_serial))
                O.n_foreign++;
            return;
        }
        if (O.verdict[who])
            O.n_after_verdict[who]++;
        O.n_x[who]++;
        for (j = 0; j < NSVC; j++)
            if (str_eq(sname, svc_name[j])) {
                O.queried[who] |= 1u << j;
                if (l->have_inner && who == 0) {
                    unsigned slot = l->inner.fmt[0] == 'C' ? 0 : l->inner.fmt[0] == 'L' ? 1 : 2, a, q;
                    O.xq_n[j]++;
                    O.xq_fmt0[j][slot] = l->inner.fmt[5] == '2' ? '2' : l->inner.fmt[0];
                    O.xq_nargs[j][slot] = l->inner.nargs;
                    for (a = 0; a < 5 && a < l->inner.nargs; a++) {
                        const char *sp = l->inner.a[a].s;
                        for (q = 0; q < 13 && sp[q]; q++)
                            O.xq_arg[j][slot][a][q] = sp[q];
                        O.xq_arg[j][slot][a][q] = '\0';
                    }
                }
            }
    } else
        O.n_global++;
}

static int live(unsigned j)
{
    struct iauth_request *r = iauth_find_request(G[j].id);
    return r != NULL && r == R[j];
}

static int ghost_complete(const struct ghost *g)
{
    return !(iauth_flags.bits[0] & GOTMASK & ~g->got)
        && (g->awaited == 0 || g->timed_out)
        && !(g->hidden_only && !g->has_account);
}

/* Everything a step must leave untouched in a bystander: compared bytewise. */
struct snap { struct iauth_request req; struct iauth_xquery_client cli; };
static void take_snap(struct snap *s, unsigned j)
{
    memcpy(&s->req, R[j], sizeof(s->req));
    memcpy(&s->cli, CL[j], sizeof(s->cli));
}
static int same_snap(const struct snap *s, unsigned j)
{
    /* the set header inside the request may be re-rooted by a lookup (splay); compare the rest */
    struct iauth_request tmp;
    memcpy(&tmp, R[j], sizeof(tmp));
    tmp.data.root = s->req.data.root;
    return memcmp(&tmp, &s->req, sizeof(tmp)) == 0 && memcmp(CL[j], &s->cli, sizeof(s->cli)) == 0;
}

#ifndef VP_NO_EVENTS
#include "C_step_events.h"
#endif
