/* C12: address text round-trips for every address.
 *
 * Symbolic: all 16 bytes of the address (2^128 values); -DV4 restricts to the
 * addresses irc_inaddr_is_ipv4() recognises (::a.b.c.d and ::ffff:a.b.c.d with a
 * non-zero upper half), the default to all others.
 * Real code: irc_ntop, irc_pton (modules/iauth_misc.c).
 * Oracle for "the standard library parser": ref_inet6/ref_inet4 below, an
 * RFC 4291 section 2.2 recogniser; in the native (REPLAY) build the harness
 * additionally calls glibc's inet_pton and demands agreement with the oracle,
 * so every replayed witness and counterexample cross-checks the oracle itself.
 */
#include "modules/iauth.h"
#include "vp.h"
/* irc_pton reads hex digit values from the table ctype_init() fills (src/common.c) */
#ifdef REPLAY
#include <arpa/inet.h>
#endif

static int hexval(char c)
{
    if (c >= '0' && c <= '9') return c - '0';
    if (c >= 'a' && c <= 'f') return c - 'a' + 10;
    if (c >= 'A' && c <= 'F') return c - 'A' + 10;
    return -1;
}

/* Accepts exactly the pure-hex RFC 4291 forms: 8 groups of 1-4 hex digits, or
 * fewer groups with one "::" standing for at least one zero group. */
static int ref_inet6(const char *s, uint8_t out[16])
{
    unsigned g[8];
    int ng = 0, dc = -1, i = 0, k, j;

    if (s[0] == ':') {
        if (s[1] != ':')
            return 0;
        dc = 0;
        i = 2;
    }
    if (s[i] != '\0')
        for (;;) {
            int nd = 0;
            unsigned v = 0;
            while (hexval(s[i]) >= 0) {
                if (nd == 4)
                    return 0;
                v = v * 16 + (unsigned)hexval(s[i]);
                nd++;
                i++;
            }
            if (nd == 0 || ng == 8)
                return 0;
            g[ng++] = v;
            if (s[i] == '\0')
                break;
            if (s[i] != ':')
                return 0;
            i++;
            if (s[i] == ':') {
                if (dc >= 0)
                    return 0;
                dc = ng;
                i++;
                if (s[i] == '\0')
                    break;
            } else if (s[i] == '\0')
                return 0;
        }
    if (dc < 0) {
        if (ng != 8)
            return 0;
    } else if (ng >= 8)
        return 0;
    for (k = 0; k < 16; k++)
        out[k] = 0;
    for (k = 0, j = 0; k < ng; k++) {
        if (k == dc)
            j += 8 - ng;
        out[2 * j] = (uint8_t)(g[k] >> 8);
        out[2 * j + 1] = (uint8_t)(g[k] & 255);
        j++;
    }
    return 1;
}

/* Strict dotted quad, decimal octets without a leading zero (what inet_pton(AF_INET) accepts). */
static int ref_inet4(const char *s, uint8_t out[4])
{
    int i = 0, k;
    for (k = 0; k < 4; k++) {
        unsigned v = 0;
        int nd = 0;
        while (s[i] >= '0' && s[i] <= '9') {
            if (nd > 0 && v == 0)
                return 0; /* leading zero */
            v = v * 10 + (unsigned)(s[i] - '0');
            if (v > 255)
                return 0;
            nd++;
            i++;
        }
        if (nd == 0)
            return 0;
        out[k] = (uint8_t)v;
        if (k < 3) {
            if (s[i] != '.')
                return 0;
            i++;
        }
    }
    return s[i] == '\0';
}

void harness(void)
{
    irc_inaddr a, b, want;
    char text[IRC_NTOP_MAX + 2], text2[IRC_NTOP_MAX + 2];
    uint8_t ref[16];
    unsigned int n, n2, r, k, i, nzero_groups = 0;
    int ok;

    ctype_init();
    vp_bytes(&a, sizeof(a));
#ifdef V4
    VP_ASSUME(irc_inaddr_is_ipv4(a));
#else
    VP_ASSUME(!irc_inaddr_is_ipv4(a));
#ifdef VP_WIDE2
    /* stated bound of this query: groups 2 and 5 range over all 16-bit values, the others
     * are 1, 0 or 0xabcd as fixed below (a zero run of two in front of group 5) */
    a.in6[0] = htons(1); a.in6[1] = htons(0xabcd); a.in6[3] = 0; a.in6[4] = 0; a.in6[6] = htons(1); a.in6[7] = htons(1);
#endif
#ifdef VP_GROUPMAX
    /* stated bound of the quick tier: every 16-bit group is 0..VP_GROUPMAX (all 256 zero
     * patterns, narrow digit widths); the thorough tier has no such bound */
    for (k = 0; k < 8; k++)
        VP_ASSUME(ntohs(a.in6[k]) <= VP_GROUPMAX);
#endif
#endif
    for (i = 0; i < IRC_NTOP_MAX + 2; i++)
        text[i] = text2[i] = 0x55;

    n = irc_ntop(text, IRC_NTOP_MAX, &a);

    VP_ASSERT(n < IRC_NTOP_MAX, "text fits the documented buffer size");
    VP_ASSERT(n > 0 && text[n < IRC_NTOP_MAX ? n : 0] == '\0', "text is NUL-terminated at the returned length");
    VP_ASSERT(text[IRC_NTOP_MAX] == 0x55 && text[IRC_NTOP_MAX + 1] == 0x55, "nothing written beyond out_size");
    VP_ASSERT(text[0] != ':', "text never begins with ':'");
    for (k = 0, ok = 1; k < n && k < IRC_NTOP_MAX; k++)
        if (text[k] == '\0' || text[k] == ' ')
            ok = 0;
    VP_ASSERT(ok, "no NUL or space inside the text");

    /* canonical form: IPv4-compatible addresses canonicalise to IPv4-mapped */
    want = a;
#ifdef V4
    want.in6[5] = 65535;
#endif

#if defined(PART_OWN) || defined(PART_IDEM)
    /* accepted by the daemon's own parser and denotes the same address */
    r = irc_pton(&b, NULL, text, 0);
    VP_ASSERT(r == n, "own parser accepts the whole text");
    for (k = 0, ok = 1; k < 8; k++)
        if (b.in6[k] != want.in6[k])
            ok = 0;
    VP_ASSERT(ok, "own parser yields the same address");

#endif
#ifdef PART_REF
    /* accepted by the standard parser and denotes the same address */
#ifdef V4
    ok = ref_inet4(text, ref);
    VP_ASSERT(ok, "standard IPv4 parser accepts the text");
    VP_ASSERT(ok && memcmp(ref, &a.in6_8[12], 4) == 0, "standard IPv4 parser yields the same address");
#ifdef REPLAY
    { struct in_addr sa; int g = inet_pton(AF_INET, text, &sa);
      if (g != ok || (ok && memcmp(&sa, ref, 4) != 0))
          vp_oracle_mismatch("ref_inet4 vs glibc inet_pton(AF_INET)"); }
#endif
#else
    ok = ref_inet6(text, ref);
#ifdef REPLAY
    { struct in6_addr sa; int g = inet_pton(AF_INET6, text, &sa);
      if (g != ok || (ok && memcmp(&sa, ref, 16) != 0))
          vp_oracle_mismatch("ref_inet6 vs glibc inet_pton(AF_INET6)");
      ok = g; if (g) memcpy(ref, &sa, 16); /* natively the real standard parser decides */
    }
#endif
    VP_ASSERT(ok, "standard IPv6 parser accepts the text");
    VP_ASSERT(ok && memcmp(ref, &a, 16) == 0, "standard IPv6 parser yields the same address");
#endif

#endif
#ifdef PART_IDEM
    /* parsing an accepted plain address and printing it again is idempotent */
    /* CBMC 6.11 loses precision when a union that was written through one member with a
     * non-literal index (irc_pton: addr->in6[ii++]) is read through another member (as
     * irc_inaddr_is_ipv4 does): rebuild the parsed address bytewise from its in6[] view. */
    { irc_inaddr b2; uint8_t *p = (uint8_t *)&b2;
      for (k = 0; k < 8; k++) { uint16_t v = b.in6[k]; p[2 * k] = (uint8_t)(v & 0xff); p[2 * k + 1] = (uint8_t)(v >> 8); }
      n2 = irc_ntop(text2, IRC_NTOP_MAX, &b2); }
    VP_ASSERT(n2 == n && memcmp(text, text2, n < IRC_NTOP_MAX ? n + 1 : 1) == 0, "print(parse(print(a))) == print(a)");
#endif

#ifdef V4
    VP_COVER(a.in6[5] == 0, "IPv4-compatible (::a.b.c.d) input");
    VP_COVER(a.in6[5] == 65535 && n == 15, "IPv4-mapped, 15 characters");
#else
    for (k = 0; k < 8; k++)
        if (a.in6[k] == 0)
            nzero_groups++;
#ifdef VP_WIDE2
    VP_COVER(ntohs(a.in6[2]) == 0x10, "a group equal to 0x10 (two digits, the second zero)");
    VP_COVER(ntohs(a.in6[5]) == 0x1000 && a.in6[2] == 0, "a four-digit group and a third zero group");
#elif defined(PART_REF)
    VP_COVER(a.in6[0] == 0 && a.in6[1] != 0 && nzero_groups == 1, "single leading zero group");
    VP_COVER(a.in6[0] != 0 && a.in6[1] == 0 && a.in6[2] != 0 && a.in6[3] == 0 && a.in6[4] == 0 && a.in6[5] != 0 && a.in6[6] != 0 && a.in6[7] != 0,
             "short zero run followed by a longer one");
    VP_COVER(nzero_groups == 8, "all-zero address");
#elif defined(PART_OWN)
    VP_COVER(a.in6[0] != 0 && a.in6[1] == 0 && a.in6[2] != 0 && a.in6[3] == 0 && a.in6[4] != 0 && a.in6[5] == 0 && a.in6[6] == 0 && a.in6[7] != 0,
             "two single zero groups then a run of two");
    VP_COVER(a.in6[7] == 0 && a.in6[6] == 0 && a.in6[5] != 0 && a.in6[0] != 0, "trailing zero run");
#else
    VP_COVER(a.in6_32[0] == 0 && a.in6_32[1] == 0 && a.in6[4] == 0 && a.in6[5] == 0 && a.in6[6] == 0 && a.in6[7] != 0,
             "::x (upper half of the last 32 bits zero) is printed as IPv6, not as IPv4");
    VP_COVER(nzero_groups == 0, "no zero group");
#endif
#endif
}
