/* C13b/c/d: irc_pton on arbitrary and on grammar-derived strings.
 *
 *  -DP_ANY    every byte string of exactly VP_LEN non-NUL bytes (the driver splits by
 *             length), bits pointer NULL or not, allow_trailing 0 or 1: memory safety,
 *             no undefined shift/overflow, result within the string, prefix length <= 128,
 *             agreement with the standard parsers wherever both accept (C13d).
 *  -DP_CIDR4  a.b.c.d/n   (symbolic octets and n)     -> bits == 96+n, address ::ffff:a.b.c.d
 *  -DP_CIDR6  g1:g2::/n   (symbolic groups and n)     -> bits == n, groups as written, rest zero
 *  -DP_WILD4  a.*  a.b.*  a.b.c.*                      -> bits == 96+8k
 *  -DP_WILD6  g1:*  g1:g2:*  ...                       -> bits == 16k
 *  each followed by the class-rule criterion: irc_check_mask(x, parsed, bits) <=> x lies in
 *  the written network, for a symbolic address x.
 * Real code: irc_pton, irc_pton_ip4, irc_check_mask (modules/iauth_misc.c).
 */
#include "modules/iauth.h"
#include "vp.h"
/* irc_pton reads hex digit values from the table ctype_init() fills (src/common.c) */
#ifdef REPLAY
#include <arpa/inet.h>
#endif

#ifndef VP_LEN
#define VP_LEN 4
#endif

static int hexval(char c)
{
    if (c >= '0' && c <= '9') return c - '0';
    if (c >= 'a' && c <= 'f') return c - 'a' + 10;
    if (c >= 'A' && c <= 'F') return c - 'A' + 10;
    return -1;
}

/* the same RFC 4291 recogniser as in C12_ntop.c (pure hex forms) */
static int ref_inet6(const char *s, uint8_t out[16])
{
    unsigned g[8];
    int ng = 0, dc = -1, i = 0, k, j;

    if (s[0] == ':') {
        if (s[1] != ':')
            return 0;
        dc = 0;
        i = 2;
    }
    if (s[i] != '\0')
        for (;;) {
            int nd = 0;
            unsigned v = 0;
            while (hexval(s[i]) >= 0) {
                if (nd == 4)
                    return 0;
                v = v * 16 + (unsigned)hexval(s[i]);
                nd++;
                i++;
            }
            if (nd == 0 || ng == 8)
                return 0;
            g[ng++] = v;
            if (s[i] == '\0')
                break;
            if (s[i] != ':')
                return 0;
            i++;
            if (s[i] == ':') {
                if (dc >= 0)
                    return 0;
                dc = ng;
                i++;
                if (s[i] == '\0')
                    break;
            } else if (s[i] == '\0')
                return 0;
        }
    if (dc < 0) {
        if (ng != 8)
            return 0;
    } else if (ng >= 8)
        return 0;
    for (k = 0; k < 16; k++)
        out[k] = 0;
    for (k = 0, j = 0; k < ng; k++) {
        if (k == dc)
            j += 8 - ng;
        out[2 * j] = (uint8_t)(g[k] >> 8);
        out[2 * j + 1] = (uint8_t)(g[k] & 255);
        j++;
    }
    return 1;
}

static int ref_inet4(const char *s, uint8_t out[4])
{
    int i = 0, k;
    for (k = 0; k < 4; k++) {
        unsigned v = 0;
        int nd = 0;
        while (s[i] >= '0' && s[i] <= '9') {
            if (nd > 0 && v == 0)
                return 0;
            v = v * 10 + (unsigned)(s[i] - '0');
            if (v > 255)
                return 0;
            nd++;
            i++;
        }
        if (nd == 0)
            return 0;
        out[k] = (uint8_t)v;
        if (k < 3) {
            if (s[i] != '.')
                return 0;
            i++;
        }
    }
    return s[i] == '\0';
}

static unsigned put_dec(char *s, unsigned pos, unsigned v)
{
    if (v >= 100) s[pos++] = (char)('0' + v / 100);
    if (v >= 10) s[pos++] = (char)('0' + (v / 10) % 10);
    s[pos++] = (char)('0' + v % 10);
    return pos;
}

static unsigned put_hex(char *s, unsigned pos, unsigned v)
{
    static const char hx[] = "0123456789abcdef";
    if (v >= 0x1000) s[pos++] = hx[v >> 12];
    if (v >= 0x100) s[pos++] = hx[(v >> 8) & 15];
    if (v >= 0x10) s[pos++] = hx[(v >> 4) & 15];
    s[pos++] = hx[v & 15];
    return pos;
}

/* compare a parsed address with expected network-order bytes through the in6[] member only
 * (CBMC 6.11 is imprecise when a union written through in6[variable index] is read through
 * another member); in6[] holds network byte order, this harness runs little-endian */
static int addr_is(const irc_inaddr *a, const uint8_t w[16])
{
    unsigned k;
    for (k = 0; k < 8; k++)
        if (a->in6[k] != (uint16_t)(w[2 * k] | (w[2 * k + 1] << 8)))
            return 0;
    return 1;
}

/* x lies in the network net/len: the leading len bits are equal */
static int in_net(const irc_inaddr *x, const uint8_t net[16], unsigned len)
{
    unsigned i;
    for (i = 0; i < 128 && i < len; i++)
        if (((x->in6_8[i / 8] >> (7 - i % 8)) & 1) != ((net[i / 8] >> (7 - i % 8)) & 1))
            return 0;
    return 1;
}

void harness(void)
{
    irc_inaddr addr, x;
    unsigned int bits = 0xdeadu, r, i;
    uint8_t want[16];

    ctype_init();
    vp_bytes(&x, sizeof(x));
    for (i = 0; i < 16; i++)
        want[i] = 0;

#if defined(P_ANY)
    {
        char s[VP_LEN + 1];
        int with_bits = vp_bool(), trailing = vp_bool();
        uint8_t ref[16], ref4[4];
        vp_str(s, VP_LEN);
        memset(&addr, 0x5a, sizeof(addr));
        r = irc_pton(&addr, with_bits ? &bits : NULL, s, trailing);
        VP_ASSERT(r <= VP_LEN, "characters consumed never exceed the string");
        if (r > 0 && !trailing)
            VP_ASSERT(s[r] == '\0', "without allow_trailing a successful parse consumes the whole string");
        if (with_bits && r > 0 && bits != 0xdeadu && !(s[0] == ' ' || (s[0] >= '\t' && s[0] <= '\r')))
            VP_ASSERT(bits <= 128, "a reported prefix length is at most 128");
        if (!with_bits)
            VP_ASSERT(bits == 0xdeadu, "nothing is written through a NULL bits pointer");
        /* C13d: agreement with the standard parsers on plain addresses */
        if (!with_bits && !trailing && r > 0) {
            int ok6 = ref_inet6(s, ref), ok4 = ref_inet4(s, ref4);
#ifdef REPLAY
            { struct in6_addr sa; struct in_addr s4; int g6 = inet_pton(AF_INET6, s, &sa), g4 = inet_pton(AF_INET, s, &s4);
              if (g6 != ok6 || g4 != ok4 || (ok6 && memcmp(&sa, ref, 16)) || (ok4 && memcmp(&s4, ref4, 4)))
                  vp_oracle_mismatch("ref_inet4/6 vs glibc inet_pton");
              ok6 = g6; ok4 = g4; if (g6) memcpy(ref, &sa, 16); if (g4) memcpy(ref4, &s4, 4); }
#endif
            if (ok6)
                VP_ASSERT(addr_is(&addr, ref), "agrees with the standard IPv6 parser where both accept");
            if (ok4)
            {
                uint8_t w4[16] = { 0, 0, 0, 0, 0, 0, 0, 0, 0, 0, 0xff, 0xff, 0, 0, 0, 0 };
                w4[12] = ref4[0]; w4[13] = ref4[1]; w4[14] = ref4[2]; w4[15] = ref4[3];
                VP_ASSERT(addr_is(&addr, w4), "agrees with the standard IPv4 parser where both accept (as IPv4-mapped)");
            }
#if VP_LEN >= 2
            VP_COVER(ok6, "a plain IPv6 address both parsers accept");
#endif
#if VP_LEN >= 7
            VP_COVER(ok4, "a plain IPv4 address both parsers accept");
#endif
        }
        VP_COVER(r == 0, "string rejected");
        VP_COVER(r == VP_LEN && with_bits && bits < 128, "mask or wildcard accepted");
    }
#elif defined(P_NET)
    {
        /* VP_TMPL: 'd' = symbolic decimal digit, 'h' = symbolic hex digit, anything else literal.
         * The layout is concrete (one query per layout), every digit is symbolic. */
        static const char tmpl[] = VP_TMPL;
        char s[sizeof(tmpl)];
        unsigned len = sizeof(tmpl) - 1, p, ngroups = 0, val = 0, have = 0, plen = 0, in_plen = 0, wild = 0, v6 = 0, dbl = 0, dblpos = 0, ok = 1;
        unsigned grp[9];
        for (p = 0; p < len; p++) {
            char c = tmpl[p];
            if (c == 'd') c = (char)('0' + vp_range(0, 9));
            else if (c == 'h') { unsigned h = vp_range(0, 15); c = (char)(h < 10 ? '0' + h : 'a' + h - 10); }
            s[p] = c;
            if (tmpl[p] == ':') v6 = 1;
        }
        s[len] = '\0';
        /* reference reading of the (concrete) layout */
        for (p = 0; p <= len; p++) {
            char c = s[p];
            int hv = hexval(c);
            if (in_plen) {
                if (c >= '0' && c <= '9') plen = plen * 10 + (unsigned)(c - '0');
            } else if (hv >= 0 && (v6 || hv < 10)) {
                val = v6 ? val * 16 + (unsigned)hv : val * 10 + (unsigned)hv;
                have = 1;
            } else if (c == '.' || c == ':' || c == '/' || c == '\0' || c == '*') {
                if (have && ngroups < 8) grp[ngroups++] = val;
                if (c == ':' && tmpl[p + 1] == ':' && !dbl) { dbl = 1; dblpos = ngroups; }
                val = 0; have = 0;
                if (c == '/') in_plen = 1;
                if (c == '*') wild = 1;
            }
        }
        if (v6) {
            /* groups written before a "::" start at the front, those after it end at the back */
            for (p = 0; p < ngroups; p++) {
                unsigned at = (dbl && p >= dblpos) ? 8 - (ngroups - p) : p;
                want[2 * at] = (uint8_t)(grp[p] >> 8); want[2 * at + 1] = (uint8_t)grp[p];
            }
            if (wild) plen = 16 * ngroups;
            else if (!in_plen) plen = 128;
            if (plen > 128) ok = 0;
        } else {
            want[10] = want[11] = 0xff;
            for (p = 0; p < ngroups && p < 4; p++) { want[12 + p] = (uint8_t)grp[p]; if (grp[p] > 255) ok = 0; }
            if (wild) plen = 8 * ngroups;
            else if (!in_plen) plen = 32;
            if (plen > 32) ok = 0;
            plen += 96;
        }
        if (wild && ngroups == 0) {     /* a bare "*" (or "**"): everything */
            plen = 0;
            want[10] = want[11] = 0;
        }
        r = irc_pton(&addr, &bits, s, 0);
#ifdef VP_NOT_AN_ADDRESS
        /* a layout outside the documented syntax (e.g. five dotted components): the property only
         * asks that it is rejected or parsed without touching memory - decided by CBMC's own
         * obligations (bounds, shift distance, overflow) on the real code; nothing is asserted
         * about the result */
        VP_ASSERT(r <= len, "characters consumed never exceed the string");
        VP_COVER(r == 0, "opt: text rejected");
        VP_COVER(1, "parser returned");
        (void)plen; (void)ok; (void)wild;
#else
        if (ok) {
            VP_ASSERT(r == len, "a CIDR / wildcard text is accepted whole");
            VP_ASSERT(bits == plen, "it yields the documented prefix length (a.b.c.d/n: 96+n, x:y::/n: n, a.b.*: 96+8k, x:y:*: 16k, *: 0)");
            VP_ASSERT(addr_is(&addr, want), "it yields the network bits as written, the rest zero");
            VP_ASSERT((irc_check_mask(&x, &addr, bits) != 0) == (in_net(&x, want, plen) != 0), "mask test on the parsed rule <=> address lies in the written network");
        } else
            VP_ASSERT(r == 0, "an octet above 255 or a prefix length above 32 / 128 is rejected");
        VP_COVER(ok && r > 0 && in_net(&x, want, plen), "accepted, and the symbolic client address lies inside the network");
#ifndef VP_MATCH_ALL
        VP_COVER(ok && r > 0 && !in_net(&x, want, plen), "accepted, and the symbolic client address lies outside");
#endif
#ifdef VP_CAN_REJECT
        VP_COVER(!ok, "out-of-range octet or prefix length");
#endif
#endif
    }
#else
#error choose a mode
#endif
}
