/* C09a: formatting layer - the real iauth_send() renders every message of the three
 * IAuth modules as exactly one well-formed, correctly addressed line.
 *
 * For every format literal passed to iauth_send() in /repo (list generated from the
 * sources at build time, gen_formats.h), with req NULL or a request whose id, port and
 * address text are symbolic, and with symbolic %s arguments (contents symbolic, lengths
 * per -D), the bytes iauth_send() hands to stdout must be
 *      <word> [<id> <addr> <port>]<rest rendered with the arguments> '\n'
 * in one fputs + one fputc('\n') + one fflush, NUL-terminated inside msg[1024].
 * -DLONG: one argument of 1100 bytes (beyond the formatter's buffer): truncated, memory-safe,
 * still one line.
 * printf family: byte-exact C model (env/libc_models.c) under CBMC, glibc in native replay.
 * Real code: iauth_send (modules/iauth_core.c).
 */
#include "modules/iauth.h"
#include <unistd.h>
#include "vp.h"

#ifdef LONG
#define CAPMAX 2200
#else
#define CAPMAX 200
#endif
static char cap[CAPMAX];
static unsigned cap_len, cap_puts, cap_nl, cap_flush, cap_other;

static int cap_fputs(const char *s, FILE *f)
{
    unsigned i;
    (void)f;
    cap_puts++;
    for (i = 0; i < CAPMAX - 1 && s[i] != '\0' && cap_len < sizeof(cap) - 1; i++)
        cap[cap_len++] = s[i];
    cap[cap_len] = '\0';
    return 0;
}
static int cap_fputc(int c, FILE *f)
{
    (void)f;
    if (c == '\n') cap_nl++; else cap_other++;
    return c;
}
static int cap_fflush(FILE *f) { (void)f; cap_flush++; return 0; }

#define VP_REAL_OUTPUT
#define fputs cap_fputs
#define fputc cap_fputc
#define fflush cap_fflush
#include "tu/iauth_all.c"
#undef fputs
#undef fputc
#undef fflush
#include "env/iauth_env.h"
#include "gen_formats_idx.h"

struct event_base *ev_base;
void vp_on_line(const struct vp_line *l) { (void)l; }

#ifndef LSTR
#define LSTR 2
#endif
#ifdef LONG
#define LS0 1100
#else
#define LS0 LSTR
#endif

static char S0[LS0 + 1], S1[LSTR + 1], S2[LSTR + 1], S3[LSTR + 1];
static char *S[4] = { S0, S1, S2, S3 };
static int I[4];
static unsigned U[4];
static struct iauth_request rq;
static char expect[CAPMAX + 200], rest[CAPMAX];

static void clean_str(char *s, unsigned n)
{
    unsigned i;
    for (i = 0; i < n; i++) {
        char c = (char)vp_u8();
        VP_ASSUME(c != '\0' && c != '\n' && c != '\r');
        s[i] = c;
    }
    s[n] = '\0';
}

static void check_line(int which, int client, const char *word, unsigned restlen)
{
    unsigned n = 0, i;
    (void)which;
    VP_ASSERT(cap_puts == 1 && cap_nl == 1 && cap_flush == 1 && cap_other == 0, "one message = one text, one newline, one flush");
    /* expected text */
    for (i = 0; word[i]; i++) expect[n++] = word[i];
    if (client)
        n += (unsigned)snprintf(expect + n, sizeof(expect) - n, " %d %s %u", rq.client, rq.text_addr, (unsigned)rq.remote_port);
    for (i = 0; i < CAPMAX - 1 && i < restlen && rest[i]; i++) expect[n++] = rest[i];
    expect[n] = '\0';
    VP_ASSERT(n < CAPMAX, "environment: capture buffer large enough");
    if (n < 1024) {
        VP_ASSERT(cap_len == n, "the line has exactly the expected length");
        for (i = 0; i < CAPMAX; i++)
            if (i <= n)
                VP_ASSERT(cap[i] == expect[i], "the line is <word> [<id> <addr> <port>]<rest>, byte for byte");
    } else {
        VP_ASSERT(cap_len == 1023, "an over-long message is truncated to the formatter's buffer");
        for (i = 0; i < 24; i++)
            VP_ASSERT(cap[i] == expect[i], "the truncated line starts like the full text");
    }
#ifndef LONG
    for (i = 0; i < CAPMAX; i++)
        if (i < cap_len)
            VP_ASSERT(cap[i] != '\n' && cap[i] != '\r' && cap[i] != '\0', "no line break inside a message");
#endif
}

#ifdef LONG
/* over-long argument: only what the truncation must guarantee - one text, one newline, one
 * flush, exactly sizeof(msg)-1 bytes, and CBMC's bounds checks on msg[] inside iauth_send */
#define FMT_CASE(N, CLIENT, FMT, WORD, REST, ...)                                            \
    if (which == N) {                                                                        \
        iauth_send(CLIENT ? &rq : NULL, FMT, ##__VA_ARGS__);                                 \
        VP_ASSERT(cap_puts == 1 && cap_nl == 1 && cap_flush == 1 && cap_other == 0, "one message = one text, one newline, one flush"); \
        VP_ASSERT(cap_len == 1023, "an over-long message is truncated to the formatter's buffer"); \
        VP_ASSERT(cap[0] == WORD[0], "the truncated line still starts with its command letter"); \
    }
#else
#define FMT_CASE(N, CLIENT, FMT, WORD, REST, ...)                                            \
    if (which == N) {                                                                        \
        unsigned rl = (unsigned)snprintf(rest, sizeof(rest), REST "%s", ##__VA_ARGS__, "");  \
        iauth_send(CLIENT ? &rq : NULL, FMT, ##__VA_ARGS__);                                 \
        check_line(N, CLIENT, WORD, rl < sizeof(rest) ? rl : sizeof(rest) - 1);              \
    }
#endif

void harness(void)
{
    unsigned which = VP_WHICH, i;
#ifdef LONG
    /* (concrete: a symbolic byte could be the terminator as far as the symbolic execution can
     * tell, which makes every later write position in msg[] symbolic - 15 GB) */
    for (i = 0; i < LS0; i++) S0[i] = 'A';
    S0[LS0] = '\0';
#else
    clean_str(S0, LS0);
#endif
    clean_str(S1, LSTR); clean_str(S2, LSTR); clean_str(S3, LSTR);
    /* numbers: a symbolic choice among boundary values (rendering a full-range symbolic
     * integer in decimal twice - here and in the expected text - is division-heavy and does
     * not finish; the number renderer itself is libc's, not this repository's) */
    {
        static const int iv[] = { -2147483647 - 1, -1, 0, 2147483647 };
        static const unsigned uv[] = { 0u, 10u, 4294967295u };
        static const unsigned short pv[] = { 0, 6667, 65535 };
#define VP_CAT2(a, b) a##b
#define VP_CAT(a, b) VP_CAT2(a, b)
        /* formats with many numbers (the two statistics lines) choose among two values each */
#ifdef LONG
        for (i = 0; i < 4; i++) {
            I[i] = iv[3];
            U[i] = uv[1];
        }
#else
        for (i = 0; i < 4; i++) {
            I[i] = iv[vp_range(0, VP_CAT(FMT_NNUM_, VP_WHICH) > 4 ? 1 : 3)];
            U[i] = uv[vp_range(0, VP_CAT(FMT_NNUM_, VP_WHICH) > 4 ? 1 : 2)];
        }
#endif
#ifdef LONG
        /* fixed-width header and numbers so that every write position in msg[] is concrete */
        rq.client = 7;
        rq.remote_port = 6667;
        (void)pv;
#else
        rq.client = iv[vp_range(0, 3)];
        rq.remote_port = pv[vp_range(0, 2)];
#endif
    }
    clean_str(rq.text_addr, LADDR);
    for (i = 0; i < LADDR; i++) VP_ASSUME(rq.text_addr[i] != ' ');
    cap_len = cap_puts = cap_nl = cap_flush = cap_other = 0;
#include "gen_formats.h"
    VP_ASSERT(VP_WHICH < N_FORMATS, "format index within the generated list");
    VP_COVER(cap_len > 0, "a message was rendered");
    VP_COVER(cap_puts == 1 && cap_nl == 1, "message complete");
}
