/* C17: a reload reaches the decision modules - after a successful reload the xquery service
 * table (which services are queried, with which protocol) is that of the NEW file, whether
 * the edit added entries, removed them or changed them in place.
 *
 * Start-up as in the daemon: first file merged into the live tree (real conf_replace_value),
 * then the real xquery module constructor (registers its section, installs its hook, builds
 * its table).  Reload: second file merged the same way; whatever notifications the real merge
 * delivers are what the module gets.  Afterwards the module's table is compared with the
 * second file: for every service name, configured-with-protocol-T  <=>  the file says T.
 * Which names each file holds is concrete per query (the driver enumerates the edit kinds);
 * the protocol strings are SYMBOLIC choices among login, login-ipr, dronecheck, combined and
 * an unknown word.
 * Real code: conf_replace_value & friends (src/config.c), iauth_xquery_services_changed,
 * iauth_xquery_config_service, iauth_xquery_unref, the constructor (modules/iauth_xquery.c).
 */
#include "tu/config_tu.c"
#include "tu/iauth_all.c"
#include "env/iauth_env.h"
#include "vp.h"

extern struct event_base *ev_base;
void vp_on_line(const struct vp_line *l) { (void)l; }

static const char *const tname[5] = { "login", "login-ipr", "dronecheck", "combined", "bogus" };
static const char *const sname[2] = { "a", "b" };

static char *dup_type(unsigned t)
{
    /* concrete size (10 bytes), content = the chosen protocol word */
    char *p = malloc(12);
    unsigned i;
    VP_ASSUME(p != NULL);
    for (i = 0; i < 11; i++)
        p[i] = tname[t][i < strlen(tname[t]) ? i : strlen(tname[t])];
    p[11] = '\0';
    return p;
}

static void init_root(struct conf_node_object *o)
{
    memset(o, 0, sizeof(*o));
    o->base.name = "";
    o->base.type = CONF_OBJECT;
    o->base.specified = 1;
    o->base.present = 1;
    o->contents.compare = conf_object_cmp;
    o->contents.cleanup = conf_object_cleanup;
}

/* one file: iauth_xquery { a <type>; b <type>; }  (presence per mask) */
static void load(unsigned mask, const unsigned type[2])
{
    struct conf_node_object scratch, *sec;
    unsigned k;
    init_root(&scratch);
    sec = conf_parse_get_child(&scratch, xstrdup("iauth_xquery"), CONF_OBJECT, sizeof(*sec));
    sec->contents.compare = conf_object_cmp;
    sec->contents.cleanup = conf_object_cleanup;
    for (k = 0; k < 2; k++)
        if (mask & (1u << k)) {
            struct conf_node_string *s = conf_parse_get_child(sec, xstrdup(sname[k]), CONF_STRING, sizeof(*s));
            xfree(s->value);
            s->value = dup_type(type[k]);
        }
    conf_replace_value(&conf_root.base, &scratch.base);
    set_clear(&scratch.contents, 0);
}

static struct iauth_xquery_service *find_srv(const char *name)
{
    unsigned i;
    for (i = 0; i < iauth_xquery_services.used; i++)
        if (iauth_xquery_services.vec[i] && strcmp(iauth_xquery_services.vec[i]->name, name) == 0)
            return iauth_xquery_services.vec[i];
    return NULL;
}

static void check_table(unsigned mask, const unsigned type[2], const char *what_cfg, const char *what_type)
{
    unsigned k;
    (void)what_cfg; (void)what_type;
    for (k = 0; k < 2; k++) {
        struct iauth_xquery_service *s = find_srv(sname[k]);
        int want_cfg = (mask & (1u << k)) && type[k] < 4;
        VP_ASSERT(s == NULL || s->configured || s->refs > 0, "a service nobody configures and nobody waits for is released");
        VP_ASSERT((s != NULL && s->configured) == want_cfg, "a service is queried exactly when the current file lists it with a known protocol");
        if (want_cfg && s && s->configured)
            VP_ASSERT((unsigned)s->type == type[k], "a service is queried with the protocol the current file gives it");
    }
}

void harness(void)
{
    unsigned t0[2], t1[2];
    t0[0] = vp_range(0, 4); t0[1] = vp_range(0, 4);
    t1[0] = vp_range(0, 4); t1[1] = vp_range(0, 4);

    conf_get_root();
    iauth_modules = malloc(sizeof(struct set));
    VP_ASSUME(iauth_modules != NULL);
    iauth_modules->compare = set_compare_charp; iauth_modules->cleanup = NULL; iauth_modules->root = NULL; iauth_modules->count = 0;

    load(VP_M0, t0);                               /* start-up: file, then modules */
    xquery_module_constructor("iauth_xquery");
    check_table(VP_M0, t0, "start", "start");
    /* clients registering at the moment of the reload: each service may be owed-to by 0..2 of them */
    {
        unsigned k;
        for (k = 0; k < 2; k++) {
            struct iauth_xquery_service *sv = find_srv(sname[k]);
            if (sv)
                sv->refs = vp_range(0, 2);
        }
    }

    load(VP_M1, t1);                               /* SIGUSR1 */
    check_table(VP_M1, t1, "reload", "reload");

    VP_COVER(t0[0] != t1[0], "protocol of service a differs between the files");
    VP_COVER(t0[0] == t1[0] && t0[1] == t1[1], "same protocols in both files");
    VP_COVER(t1[0] == 4, "new file gives an unknown protocol word");
}
