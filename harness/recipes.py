# recipes.py - which harnesses decide which property, with which bounds.
# See bin/check for the meaning of the fields.

MISC = ["repo:modules/iauth_misc.c", "repo:src/common.c", "env/core_env.c", "env/libc_models.c"]

RECIPES = {}

def _pton_uw(d):
    L = int(d.get("VP_LEN", 24)) + 2
    return ",".join(["irc_pton.%d:%d" % (i, max(L, 9)) for i in range(7)] + ["irc_pton_ip4.%d:%d" % (i, L) for i in range(5)]
                    + ["ref_inet6.%d:%d" % (i, max(L, 18)) for i in range(4)] + ["ref_inet4.%d:%d" % (i, L) for i in range(2)]
                    + ["strchr.0:%d" % L, "vp_str.0:%d" % L, "irc_check_mask.0:9", "in_net.0:130", "memcmp.0:18",
                       "ctype_init.0:31", "ctype_init.1:17", "vp_bytes.0:18", "harness.0:18"])


def _net_uw(d):
    t = str(d.get("VP_TMPL", "")).strip('"')
    L = len(t) + 2
    v6 = ":" in t
    v4 = "." in t
    items = []
    for i in range(7):
        # .0 leading blanks, .1 /digits, .2 '*' inside the IPv6 loop, .3 IPv6 main loop, .4/.5 '::' shift, .6 bare '*'
        if i == 0:
            b = 2
        elif i in (1, 2, 3, 4, 5):
            b = (max(L, 9) if v6 else 1)
        else:
            b = L
        items.append("irc_pton.%d:%d" % (i, b))
    for i in range(5):
        items.append("irc_pton_ip4.%d:%d" % (i, L if v4 else 1))
    items += ["strchr.0:%d" % L, "irc_check_mask.0:9", "in_net.0:130", "addr_is.0:9", "ctype_init.0:31", "ctype_init.1:17",
              "vp_bytes.0:18", "harness.0:18", "harness.1:%d" % L, "harness.2:%d" % L, "harness.3:10", "harness.4:10"]
    return ",".join(items)


def _net_splits(thorough):
    reject = ["ddd.ddd.ddd.ddd/dd", "d.d.d.d/dd", "hhhh:hhhh::/ddd", "h::/ddd", "ddd.*"]
    t = ["d.d.d.d/d", "ddd.ddd.ddd.ddd/dd", "dd.d.ddd.dd/dd", "hhhh:hhhh::/ddd", "h:hh::/d", "hhh::/dd",
         "d.*", "ddd.dd.*", "ddd.ddd.ddd.*", "d.**", "hhhh:*", "h:hh:hhh:hhhh:*", "*", "**",
         "h:h:h::h:h:h:h", "hh::h:h:h:h:h:h/ddd"]
    if thorough:
        t += ["dd.dd.dd.dd/d", "d.dd.ddd.d/dd", "hhhh:hhhh:hhhh:hhhh::/ddd", "hh:h:hhh::/dd", "hhhh:hhhh:hhhh:hhhh:hhhh:hhhh:hhhh:*",
              "ddd.ddd.ddd.ddd", "hhhh:hhhh:hhhh:hhhh:hhhh:hhhh:hhhh:hhhh", "::hhhh/ddd", "::/d"]
    out = []
    for i, x in enumerate(t):
        d = {"_name": "t%02d" % i, "VP_TMPL": '"%s"' % x}
        if x in reject:
            d["VP_CAN_REJECT"] = None
        if x in ("*", "**"):
            d["VP_MATCH_ALL"] = None
        out.append(d)
    # layouts outside the syntax (one component or dot too many): memory / shift / overflow safety only
    bad = ["d.d.d.d.d", "d.d.d.d.", "ddd.ddd.ddd.ddd.ddd", "d.d.d.d.d/dd", "d.d.d.d.*", "d.d.d.d.d.d.d", "::d.d.d.d.d"]
    if thorough:
        bad += ["dd.dd.dd.dd.dd.dd", "d.d.d.d./d", "hhhh::ddd.ddd.ddd.ddd.ddd", "d.d.d.d.d.*"]
    for i, x in enumerate(bad):
        out.append({"_name": "bad%02d" % i, "VP_TMPL": '"%s"' % x, "VP_NOT_AN_ADDRESS": None})
    return out


RECIPES["C13"] = {
    "units": ["modules/iauth_misc.c"],
    "jobs": [
        {"name": "mask", "src": ["C13_mask.c"] + MISC,
         "splits": {"all": [{}, {"BITS_BEYOND": None}]},
         "unwind": 130, "unwindset": ["irc_check_mask.0:9"]},
        {"name": "pton_any", "src": ["C13_pton.c"] + MISC, "defs": {"all": {"P_ANY": None}},
         "splits": {"quick": [{"VP_LEN": n} for n in range(1, 6)], "thorough": [{"VP_LEN": n} for n in range(1, 10)]},
         "unwind": 20, "unwindset": [_pton_uw], "timeout": {"quick": 600, "thorough": 3000}, "weight": 3},
        {"name": "pton_net", "src": ["C13_pton.c"] + MISC, "defs": {"all": {"P_NET": None, "VP_LEN": 24}},
         "splits": {"quick": _net_splits(False), "thorough": _net_splits(True)},
         "unwind": 44, "unwindset": [_net_uw], "timeout": 900},
    ],
}

_NTOP6_UW = ["irc_ntop.0:9", "irc_ntop.1:9", "irc_pton_ip4.0:1", "irc_pton_ip4.1:1", "irc_pton_ip4.2:1", "irc_pton_ip4.3:1",
             "irc_pton_ip4.4:1", "irc_pton.0:2", "irc_pton.1:1", "irc_pton.2:1", "irc_pton.3:41", "irc_pton.4:9", "irc_pton.5:9",
             "irc_pton.6:1", "ref_inet6.0:41", "ref_inet6.1:41", "ref_inet6.2:41", "ref_inet6.3:41", "ctype_init.0:31", "ctype_init.1:17"]
_NTOP4_UW = ["irc_pton_ip4.0:17", "irc_pton_ip4.1:17", "irc_pton_ip4.2:17", "irc_pton_ip4.3:17", "irc_pton_ip4.4:17", "irc_pton.0:2", "ctype_init.0:31", "ctype_init.1:17",
             "irc_pton.1:1", "irc_pton.2:1", "irc_pton.3:1", "irc_pton.4:1", "irc_pton.5:1", "irc_pton.6:1", "vpm_num.0:5",
             "ref_inet4.0:5", "ref_inet4.1:5"]
RECIPES["C12"] = {
    "units": ["modules/iauth_misc.c"],
    "jobs": [
        {"name": "ntop6", "src": ["C12_ntop.c"] + MISC,
         "splits": {"all": [{"PART_OWN": None}, {"PART_REF": None}, {"PART_IDEM": None}]},
         "defs": {"quick": {"VP_GROUPMAX": "0xf"}, "thorough": {}},
         "unwind": 44, "unwindset": _NTOP6_UW, "timeout": {"quick": 900, "thorough": 3400}},
        # full digit widths in the quick tier too: groups 2 and 5 over their whole 16-bit range
        # (every digit-count boundary), the other groups fixed
        {"name": "ntop6w", "tiers": ["quick"], "src": ["C12_ntop.c"] + MISC,
         "splits": {"all": [{"PART_OWN": None, "PART_REF": None, "VP_WIDE2": None}]},
         "unwind": 44, "unwindset": _NTOP6_UW, "timeout": 900},
        {"name": "ntop4", "src": ["C12_ntop.c"] + MISC,
         "splits": {"all": [{"V4": None, "PART_OWN": None, "PART_REF": None, "PART_IDEM": None}]},
         "unwind": 44, "unwindset": _NTOP4_UW, "timeout": 900},
    ],
}

CORE = ["repo:src/set.c", "repo:src/common.c", "repo:src/bitset.c", "env/core_env.c", "env/libc_models.c"]

def _shapes(n):
    """All binary-tree shapes over in-order indices 0..n-1 as (root, L[], R[])."""
    def build(lo, hi):  # [lo,hi)
        if lo >= hi:
            return [(-1, {})]
        out = []
        for r in range(lo, hi):
            for lroot, lmap in build(lo, r):
                for rroot, rmap in build(r + 1, hi):
                    m = {}
                    m.update(lmap); m.update(rmap)
                    m[r] = (lroot, rroot)
                    out.append((r, m))
        return out
    res = []
    for root, m in build(0, n):
        L = [m[i][0] for i in range(n)] or [-1]
        R = [m[i][1] for i in range(n)] or [-1]
        res.append((max(root, 0), L, R))
    return res


def _shape_splits(nmax):
    out = []
    for n in range(0, nmax + 1):
        for k, (root, L, R) in enumerate(_shapes(n)):
            out.append({"_name": "n%d_s%d" % (n, k), "VP_N": n, "VP_ROOT": root,
                        "VP_L": ",".join(map(str, L)), "VP_R": ",".join(map(str, R))})
    return out


RECIPES["C19"] = {
    "units": ["src/set.c", "src/common.c"],
    "jobs": [
        {"name": "cmp", "src": ["C19_cmp.c"] + CORE,
         "splits": {"all": [{"CMP_INT": None}, {"CMP_VOIDP": None}, {"CMP_PTR": None}, {"CMP_CHARP": None}]},
         "unwind": 6, "timeout": 300},
        {"name": "step", "src": ["C19_step.c"] + CORE,
         "splits": {"quick": _shape_splits(4), "thorough": _shape_splits(6)},
         "unwind": "VP_N + 3", "timeout": 600, "fp_removal": True},
    ],
}

CONFIG = ["repo:src/config.c", "env/config_env.c"] + CORE

RECIPES["C16"] = {
    "units": ["src/config.c"],
    "jobs": [
        {"name": "typed", "src": ["C16_typed.c"] + CONFIG,
         "splits": {"all": [{"T_BOOLEAN": None}, {"T_INTEGER": None}, {"T_INTERVAL_ANY": None}, {"T_VOLUME_ANY": None}]},
         "defs": {"quick": {"VP_L": 5}, "thorough": {"VP_L": 8}},
         "unwind": 22, "timeout": 600},
        # value semantics on grammar templates: symbolic digits and unit letters.  The
        # (digits per number, components) pairs are what the SAT back end (cadical) decides
        # inside the budget: symbolic-by-constant multiplications make (2,2) and beyond time out.
        {"name": "typedval", "src": ["C16_typed.c"] + CONFIG,
         "splits": {"quick": [{"T_INTERVAL_TMPL": None, "VP_ND": 1, "VP_NCOMP": 3}, {"T_INTERVAL_TMPL": None, "VP_ND": 3, "VP_NCOMP": 1},
                              {"T_VOLUME_TMPL": None, "VP_ND": 1, "VP_NCOMP": 3}, {"T_VOLUME_TMPL": None, "VP_ND": 3, "VP_NCOMP": 1},
                              {"T_INTERVAL_COLON": None, "VP_ND": 2}],
                    "thorough": [{"T_INTERVAL_TMPL": None, "VP_ND": 1, "VP_NCOMP": 3}, {"T_INTERVAL_TMPL": None, "VP_ND": 3, "VP_NCOMP": 1},
                              {"T_VOLUME_TMPL": None, "VP_ND": 1, "VP_NCOMP": 3}, {"T_VOLUME_TMPL": None, "VP_ND": 3, "VP_NCOMP": 3},
                              {"T_INTERVAL_COLON": None, "VP_ND": 3}]},
         "unwind": 22, "timeout": 900, "flags": ["--sat-solver", "cadical"]},
    ],
}

IAUTH = ["repo:modules/iauth_misc.c", "repo:src/set.c", "repo:src/common.c", "repo:src/bitset.c",
         "env/rec.c", "env/iauth_env.c", "env/conf_stub.c", "env/core_env.c", "env/libc_models.c"]

_CMPS = ["set_compare_int", "set_compare_voidp", "set_compare_charp", "set_compare_ptr", "conf_object_cmp", "irc_inaddr_cmp"]
_XQ = ["iauth_xquery_check"]
FP_IAUTH = {
    "set_dispose_node.function_pointer_call.1": ["iauth_req_cleanup"],
    "set_splay.function_pointer_call.1": _CMPS,
    "set_splay.function_pointer_call.2": _CMPS,
    "set_splay.function_pointer_call.3": _CMPS,
    "vp_fire_timer.function_pointer_call.1": ["iauth_timeout"],
    "notify_pre_registered.function_pointer_call.1": ["iauth_class_assign"],
    "iauth_collect_config.function_pointer_call.1": ["iauth_xquery_report_config", "iauth_class_report_config"],
    "iauth_collect_stats.function_pointer_call.1": ["iauth_xquery_report_stats", "iauth_class_report_stats"],
    "parse_new_client.function_pointer_call.1": ["iauth_xquery_new_client"],
    "parse_hostname.function_pointer_call.1": _XQ,
    "parse_no_hostname.function_pointer_call.1": _XQ,
    "parse_ident.function_pointer_call.1": _XQ,
    "parse_nick.function_pointer_call.1": _XQ,
    "parse_hurry_up.function_pointer_call.1": _XQ,
    "parse_password.function_pointer_call.1": ["iauth_xquery_password"],
    "parse_user_info.function_pointer_call.1": ["iauth_xquery_user_info"],
    "parse_x_reply.function_pointer_call.1": ["iauth_xquery_x_reply"],
    "parse_x_unlinked.function_pointer_call.1": ["iauth_xquery_x_unlinked"],
    "iauth_class_foreach_rule.function_pointer_call.1": ["iauth_class_rule_check", "iauth_class_rule_stats"],
}

STEP_EVENTS = ["EV_N", "EV_d", "EV_n", "EV_u", "EV_U", "EV_H", "EV_P", "EV_X", "EV_x", "EV_TIMER", "EV_D", "EV_T", "EV_C"]
STEP_UNWINDSET = ["set_splay.0:4", "set_first.0:4", "set_clear.0:4", "set_dispose_node:2", "set_clear:2",
                  "iauth_req_cleanup:2", "strcmp.0:70", "strncmp.0:16", "strlen.0:70", "strchr.0:70",
                  "iauth_xquery_check_password.0:14", "iauth_xquery_check_password.1:14",
                  "iauth_xquery_check_password.2:14", "iauth_xquery_check_password.3:14",
                  "strtoul.0:8", "strtoul.1:8", "strtol.0:8", "strtol.1:8", "strtol.2:8",
                  "iauth_xquery_set_account.0:70", "iauth_xquery_set_account.1:70", "collect.0:48", "collect.1:48"]


def step_job(name, check, nreq=2, nsvc=2, events=STEP_EVENTS, extra=None):
    d = {"NREQ": nreq, "NSVC": nsvc, check: None}
    if extra:
        d.update(extra)
    # thorough: longer symbolic strings in the pre-state, in event arguments and in the password
    return {"name": name, "src": ["C_step.c"] + IAUTH, "defs": {"all": d, "thorough": {"KSTR": 5, "LARG": 6, "LPW": 12}},
            "splits": {"all": [{e: None} for e in events]},
            "unwind": 800, "unwindset": STEP_UNWINDSET, "fp_restrict": FP_IAUTH,
            "flags": ["--sat-solver", "cadical"], "timeout": 900}


_STEP_UNITS = ["modules/iauth_core.c", "modules/iauth_xquery.c", "modules/iauth_class.c", "modules/iauth_misc.c", "src/set.c", "src/bitset.c", "src/common.c"]
_EV_DATA = ["EV_N", "EV_d", "EV_n", "EV_u", "EV_U", "EV_H", "EV_P"]
_EV_REPLY = ["EV_X", "EV_x", "EV_TIMER"]

RECIPES["C01"] = {"units": _STEP_UNITS, "jobs": [step_job("step", "CHECK_C01")]}
RECIPES["C02"] = {"units": _STEP_UNITS, "jobs": [step_job("step", "CHECK_C02", events=_EV_DATA + _EV_REPLY)]}
RECIPES["C03"] = {"units": _STEP_UNITS, "jobs": [step_job("step", "CHECK_C03", events=_EV_DATA + _EV_REPLY + ["EV_C"])]}
RECIPES["C05"] = {"units": _STEP_UNITS, "jobs": [step_job("step", "CHECK_C05", events=_EV_REPLY + ["EV_H", "EV_U", "EV_P"])]}
RECIPES["C06"] = {"units": _STEP_UNITS, "jobs": [step_job("step", "CHECK_C06", events=_EV_DATA)]}
RECIPES["C07"] = {"units": _STEP_UNITS, "jobs": [
    step_job("step", "CHECK_C07"),
    {"name": "two", "src": ["C07_two.c"] + IAUTH, "defs": {"all": {"NREQ": 2, "NSVC": 2}},
     "splits": {"all": [{"TWO_NICK": None}, {"TWO_HURRY": None}]},
     "unwind": 800, "unwindset": STEP_UNWINDSET, "fp_restrict": FP_IAUTH, "flags": ["--sat-solver", "cadical"], "timeout": 900},
]}
RECIPES["C10"] = {"units": _STEP_UNITS, "jobs": [
    step_job("step", "CHECK_C10"),
    {"name": "teardown", "src": ["C10_teardown.c"] + IAUTH, "defs": {"all": {"NSVC": 2}},
     "splits": {"quick": [{"NREQ": 1}, {"NREQ": 2}], "thorough": [{"NREQ": 1}, {"NREQ": 2}]},
     "unwind": 800, "unwindset": STEP_UNWINDSET + ["iauth_read.0:3"], "fp_restrict": FP_IAUTH,
     "flags": ["--sat-solver", "cadical", "--memory-leak-check"], "timeout": 900},
]}

RECIPES["C04"] = {
    "units": ["modules/iauth_core.c", "modules/iauth_xquery.c", "src/set.c"],
    "jobs": [
        step_job("step", "CHECK_C04", events=["EV_X", "EV_x", "EV_N"]),
        {"name": "tag", "src": ["C04_tag.c"] + IAUTH, "defs": {"quick": {"VP_ND": 9}, "thorough": {"VP_ND": 12}},
         "unwind": 40, "unwindset": ["set_splay.0:4"], "fp_restrict": FP_IAUTH, "timeout": 600},
    ],
}

IAUTH_NOMISC = ["env/misc_stub.c"] + [x for x in IAUTH if x != "repo:modules/iauth_misc.c"]
LINE_UW = STEP_UNWINDSET + ["iauth_read.0:3", "iauth_read.1:100", "iauth_read.2:20", "iauth_read.3:100", "iauth_read.4:100",
                            "known_cmd.0:20", "evbuffer_readln.0:100", "harness.0:100", "harness.1:100", "harness.2:100", "memcpy.0:100",
                            # strings are bounded by the line buffer (<= 100 bytes): a pointer into a freed line must end in a
                            # failed obligation, not in 800 unwindings of a copy loop over an invalid object
                            "strcpy.0:100", "strncpy.0:100", "strdup.0:100", "strcasecmp.0:100", "strncasecmp.0:100", "memchr.0:100", "strrchr.0:100"]


def _line_uw(d):
    L = int(d.get("VP_LEN", 1)) + 4
    its = ["irc_pton.%d:%d" % (i, max(L, 9) if i in (4, 5) else L) for i in range(7)] + ["irc_pton_ip4.%d:%d" % (i, L) for i in range(5)]
    its += ["irc_ntop.%d:9" % i for i in range(10)]
    its += ["vpm_num.%d:24" % i for i in range(4)]
    return ",".join(its)


def _line_splits(thorough):
    """Line layouts x command letters.  'c' in a layout is the command letter (concrete per query,
    VP_CMD), 'a' a symbolic argument byte, 'd' a symbolic digit."""
    cmds = "CDNdPUunHTEMXx?z"        # every command of the protocol and an unknown letter
    out = []

    def add(name, tmpl, cmd=None, **kw):
        d = {"_name": name, "VP_TMPL": '"%s"' % tmpl}
        if cmd is not None:
            d["VP_CMD"] = "'%s'" % cmd
        d.update(kw)
        out.append(d)
    nm = {"?": "q", "z": "zz"}
    # a handler that runs with a symbolic argument costs ~4 min and ~12 GB per query (the quick tier
    # keeps one per handler family, the thorough tier all of them)
    heavy_quick = "N"
    for c in cmds:
        n = nm.get(c, c)
        add("bare_%s" % n, "7 c", c, VP_ID_LIVE=None, _mem=2)         # no parameter at all
        if thorough or c in heavy_quick:
            add("args_%s" % n, "7 c a :a", c, VP_ID_LIVE=None)        # one word and a trailing argument
    add("id_only", "7", VP_ID_LIVE=None, _mem=2)
    if thorough:
        add("digits", "dd")
    for c in ("UXE" if thorough else "U"):
        add("many_%s" % c, "7 c a a a a a a a a a a a a a a a a a", c, VP_ID_LIVE=None)   # 17 arguments: the 16-slot vector
    for c in ("Xx?N" if thorough else "?"):
        add("noid_%s" % nm.get(c, c), "-1 c a a a", c)
    for c in ("NDC" if thorough else ""):
        add("unknown_id_%s" % c, "3 c a a a a a", c, VP_ID_UNKNOWN=None)
    add("unknown_id_bare", "3 N", None, VP_ID_UNKNOWN=None, _mem=2)
    for c2 in ("NPn" if thorough else "N"):
        # first line concrete (the symbolic part of these queries is the request's state): a stale
        # argument pointer into the freed first line is then a small, quickly refuted formula
        add("pair_U_%s" % c2, "7 U x y z", None, VP_TMPL2='"7 c"', VP_CMD2="'%s'" % c2, VP_ID_LIVE=None)
    for c2 in ("NPnuHd" if thorough else "Nu"):
        # the same with the request in the concrete state an announcement leaves behind: what the
        # second line's handler is handed is then the only symbolic datum downstream (a stale pointer
        # into the freed first line is refuted in seconds instead of exhausting memory)
        add("pairf_U_%s" % c2, "7 U x y z", None, VP_TMPL2='"7 c"', VP_CMD2="'%s'" % c2, VP_ID_LIVE=None, VP_FRESH=None, _mem=2)
    if thorough:
        add("tabs_N", "7  c\\ta  a", "N", VP_ID_LIVE=None)
        add("four_U", "7 c a a a a", "U", VP_ID_LIVE=None)
        add("one_P", "7 c a", "P", VP_ID_LIVE=None)
        add("colon_first", ":7 N a", None)
        add("plus_id", "+7 N a", None)
        add("long_arg", "7 N aaaaaaaaaaaaaaaaaaaaaaaaaaaaaaaaaaaaaaaaaaaaaaaaaaaaaaaaa", None, VP_ID_LIVE=None)
        for c2 in "uH":
            add("pair_X_%s" % c2, "-1 X a b c d", None, VP_TMPL2='"7 c a"', VP_CMD2="'%s'" % c2)
    return out


RECIPES["C08"] = {
    "units": ["modules/iauth_core.c", "modules/iauth_xquery.c", "modules/iauth_class.c", "src/set.c"],
    "jobs": [
        {"name": "line", "src": ["C08_line.c"] + IAUTH_NOMISC, "defs": {"all": {"NREQ": 1, "NSVC": 1, "VP_LINE_ALLOC": 64, "KSTR": 1}},
         "splits": {"quick": _line_splits(False), "thorough": _line_splits(True)},
         "unwind": 800, "unwindset": LINE_UW, "fp_restrict": FP_IAUTH, "flags": ["--sat-solver", "cadical"], "timeout": 1200, "mem_gb": 13},
        {"name": "eof", "src": ["C08_line.c"] + IAUTH_NOMISC, "defs": {"all": {"NREQ": 1, "NSVC": 1, "VP_LINE_ALLOC": 96, "L_EOF": None}},
         "splits": {"all": [{}]},
         "unwind": 800, "unwindset": LINE_UW, "fp_restrict": FP_IAUTH, "flags": ["--sat-solver", "cadical"], "timeout": 900},
    ],
}

import sys as _sys, os as _os
_sys.path.insert(0, _os.path.dirname(_os.path.abspath(__file__)))
import gen_formats as _gen_formats


def _fmt_job_splits():
    # the number of format literals is read from /repo at run time
    import tempfile
    d = tempfile.mkdtemp(prefix="vpfmt")
    try:
        n = _gen_formats.gen(_os.environ.get("VP_REPO", "/repo"), d)
    finally:
        import shutil
        shutil.rmtree(d, ignore_errors=True)
    return [{"_name": "f%02d" % i, "VP_WHICH": i} for i in range(n)]


RECIPES["C09"] = {
    "units": ["modules/iauth_core.c", "modules/iauth_misc.c"],
    "jobs": [
        step_job("announce", "CHECK_C09", events=["EV_C"]),
        # the address text printed at announcement (irc_ntop) denotes the announced address: the
        # C12 harness, reference-parser part (every IPv6 address; quick: groups <= 0xf, see C12)
        {"name": "addr_text", "src": ["C12_ntop.c"] + MISC,
         "splits": {"all": [{"PART_REF": None}]},
         "defs": {"quick": {"VP_GROUPMAX": "0xf"}, "thorough": {}},
         "unwind": 44, "unwindset": _NTOP6_UW, "timeout": {"quick": 900, "thorough": 3400}},
        {"name": "fmt", "src": ["C09_fmt.c"] + IAUTH, "gen": _gen_formats.gen,
         "defs": {"quick": {"LSTR": 2, "LADDR": 3}, "thorough": {"LSTR": 5, "LADDR": 15}},
         "splits": {"all": _fmt_job_splits()},
         "unwind": 210, "unwindset": ["vpm_num.0:22", "vpm_num.1:24", "vpm_num.2:24", "vpm_num.3:24"],
         "flags": ["--sat-solver", "cadical"], "timeout": 600},
        {"name": "fmt_long", "src": ["C09_fmt.c"] + IAUTH, "gen": _gen_formats.gen,
         "defs": {"all": {"LSTR": 2, "LADDR": 3, "LONG": None}},
         # (the same query for "k :%s" with a request prefix runs out of memory at 20 GB and is not run)
         "splits": {"all": [{"_name": "X", "VP_WHICH": "FMT_INDEX_XQUERY"}]},
         "unwind": 2300, "unwindset": ["vpm_num.0:22", "vpm_num.1:24", "vpm_num.2:24", "vpm_num.3:24"],
         "flags": ["--sat-solver", "cadical"], "timeout": 900, "mem_gb": 16},
    ],
}

FP_MODULE = {
    "set_splay.function_pointer_call.1": _CMPS, "set_splay.function_pointer_call.2": _CMPS, "set_splay.function_pointer_call.3": _CMPS,
    "set_dispose_node.function_pointer_call.1": ["module_cleanup"],
    "module_load.function_pointer_call.1": ["stub_ctor"],
    "module_dfs.function_pointer_call.1": ["stub_post"],
    "module_cleanup.function_pointer_call.1": ["stub_dtor_0", "stub_dtor_1", "stub_dtor_2", "stub_dtor_3"],
    "log_message.function_pointer_call.1": ["at_fatal"],
    "call_exit_funcs.function_pointer_call.1": ["module_clean"],
}


def _graphs(thorough):
    """(name, M, edges i->j, listing).  Curated graphs for the quick tier; the thorough tier adds
    every digraph without self-loops on three modules (64) for three listings."""
    def bits(m, edges):
        v = 0
        for i, j in edges:
            v |= 1 << (i * m + j)
        return v
    g = [
        ("chain3_top", 3, [(0, 1), (1, 2)], [0]),
        ("chain3_rev", 3, [(2, 1), (1, 0)], [2]),
        ("chain3_all_listed", 3, [(0, 1), (1, 2)], [2, 1, 0]),
        ("two_paths3", 3, [(0, 1), (0, 2), (1, 2)], [0]),            # m2 reachable along two paths
        ("two_paths3_rev", 3, [(2, 1), (2, 0), (1, 0)], [2]),
        ("diamond4", 4, [(0, 1), (0, 2), (1, 3), (2, 3)], [0]),      # the classic diamond
        ("diamond4_rev", 4, [(3, 1), (3, 2), (1, 0), (2, 0)], [3]),
        ("star3", 3, [(1, 0), (2, 0)], [1, 2]),
        ("independent3", 3, [], [2, 0, 1]),
        ("cycle2", 3, [(0, 1), (1, 0)], [0]),
        ("cycle3", 3, [(0, 1), (1, 2), (2, 0)], [1]),
        ("self_loop", 3, [(0, 0)], [0]),
        ("cycle_behind", 3, [(0, 1), (1, 2), (2, 1)], [0]),
        ("unlisted_untouched", 3, [(0, 1)], [0]),
    ]
    if thorough:
        pairs = [(i, j) for i in range(3) for j in range(3) if i != j]
        for v in range(64):
            edges = [pairs[k] for k in range(6) if (v >> k) & 1]
            for l in ([0], [2], [1, 0]):
                g.append(("g%02d_l%s" % (v, "".join(map(str, l))), 3, edges, l))
    return [{"_name": n, "M": m, "VP_DEP": "%du" % bits(m, e), "VP_LIST": ",".join(map(str, l))} for n, m, e, l in g]


RECIPES["C20"] = {
    "claimed": False, "na_reason": "see NOT_APPLICABLE",
    "units": ["src/module.c", "src/set.c", "src/common.c"],
    "jobs": [
        {"name": "graph", "src": ["C20_graph.c", "tu/module_tu.c", "repo:src/set.c", "repo:src/common.c", "repo:src/bitset.c", "env/core_env.c", "env/libc_models.c"],
         "defs": {"all": {"VP_HAVE_MODULE": None, "VP_TYPED_REALLOC": None}},
         "splits": {"quick": _graphs(False), "thorough": _graphs(True)},
         "unwind": 12, "unwindset": ["set_splay.0:6", "module_load:6", "module_depends:6", "stub_ctor:6", "module_dfs:6",
                                     "set_dispose_node:3", "module_cleanup:3", "set_insert:2", "module_get:3", "set_remove:3", "strlen.0:8", "strcpy.0:8", "strcmp.0:20", "strcasecmp.0:8",
                                     "memcpy.0:80", "realloc.0:20", "realloc.1:80"],
         "fp_restrict": FP_MODULE, "timeout": 900},
    ],
}

# Properties without a claimed check, with the reason (kept current by hand).
NOT_APPLICABLE = {}

RECIPES["C11"] = {
    "units": ["modules/iauth_class.c", "modules/iauth_xquery.c", "modules/iauth_misc.c", "modules/iauth_core.c", "src/common.c"],
    "jobs": [
        {"name": "decide", "src": ["C11_decide.c"] + IAUTH,
         "defs": {"all": {"VP_UNINTERPRETED_FNMATCH": None}},
         "splits": {"quick": [{"NRULES": 1}, {"NRULES": 2}], "thorough": [{"NRULES": 1}, {"NRULES": 2}, {"NRULES": 3}]},
         "unwind": 140, "unwindset": ["set_splay.0:3", "irc_check_mask.0:9", "strcmp.0:16", "strncmp.0:16", "strlen.0:16", "strchr.0:8",
                                      "strcasecmp.0:4", "collect.0:8", "collect.1:8", "memcpy.0:70"],
         "fp_restrict": FP_IAUTH, "flags": ["--sat-solver", "cadical"], "timeout": 900},
    ],
}

import gen_shim as _gen_shim

_HOOKS = ["hook_0", "hook_1", "hook_2", "hook_3", "hook_4", "hook_5", "iauth_xquery_services_changed", "iauth_xquery_service_changed", "iauth_class_conf_changed",
          "log_rescan_conf", "log_rescan_type"]
FP_CONFIG = {
    "set_splay.function_pointer_call.1": _CMPS, "set_splay.function_pointer_call.2": _CMPS, "set_splay.function_pointer_call.3": _CMPS,
    "set_dispose_node.function_pointer_call.1": ["conf_object_cleanup", "iauth_req_cleanup", "log_type_cleanup", "log_destination_cleanup"],
    "conf_parse_string_value.function_pointer_call.1": _HOOKS, "conf_parse_string_value.function_pointer_call.2": _HOOKS,
    "conf_parse_string_value.function_pointer_call.3": _HOOKS,
    "conf_set_string_list_value.function_pointer_call.1": _HOOKS,
    "conf_replace_value.function_pointer_call.1": _HOOKS, "conf_replace_value.function_pointer_call.2": _HOOKS,
    "conf_update_node.function_pointer_call.1": _HOOKS,
}
FP_CONFIG.update({k: v for k, v in FP_IAUTH.items() if k not in FP_CONFIG})
CONFIG_TU = ["repo:src/set.c", "repo:src/common.c", "repo:src/bitset.c", "env/config_env.c", "env/core_env.c", "env/libc_models.c"]
CONFIG_UW = ["set_splay.0:8", "set_first.0:8", "set_clear.0:8", "conf_replace_value:3", "conf_object_cleanup:3", "set_clear:3",
             "set_dispose_node:3", "set_insert:2", "set_remove:3", "conf_replace_value.0:6", "conf_replace_value.1:6",
             "strcasecmp.0:4", "strcmp.0:4", "strlen.0:4", "strdup.0:4", "free_addrinfo.0:1", "copy_addrinfo:1",
             "string_vector_clear_int.0:4", "conf_set_string_list_value.0:4", "conf_set_string_list_value.1:4", "conf_set_string_list_value.2:4",
             "string_vector_copy.0:4", "string_vector_copy.1:4"]

def _merge_scen(thorough):
    """(file1 presence, file2 presence, registration) scenarios for the object-level merge.
    Presence bits: a=1 b=2 l=4 i=8 o=16 o/a=32.  Registration: 2 bits per node (0 never,
    1 before the first load, 2 between the loads)."""
    def reg(**kw):
        idx = {"a": 0, "b": 1, "l": 2, "i": 3, "o": 4, "oa": 5}
        v = 0
        for k, w in kw.items():
            v |= w << (2 * idx[k])
        return v
    sc = [
        ("splice_revert", 0x01 | 0x02, 0x02 | 0x10 | 0x20, reg(a=1)),            # a removed (registered), o{a} appears, b stays
        ("obj_inplace", 0x10 | 0x20 | 0x01, 0x10 | 0x20 | 0x01, reg(o=1, oa=1)),   # same membership, values may change in place
        ("obj_gone", 0x10 | 0x20 | 0x02, 0x02, reg(b=2)),                           # unregistered object disappears with its child
        ("reg_after", 0x01 | 0x10 | 0x20, 0x01 | 0x10, reg(a=2, o=2, oa=2)),       # registered after a file created the nodes
        ("reg_after_then_omit", 0x01 | 0x10 | 0x20, 0, reg(a=2, o=2, oa=2)),  # created by a file, adopted by code, then omitted
        ("empty_then_full", 0, 0x01 | 0x02 | 0x10 | 0x20, reg(a=1, o=1)),
        ("full_then_empty", 0x01 | 0x02 | 0x10 | 0x20, 0, reg(a=1, o=1, oa=1)),
    ]
    if thorough:
        sc += [
            ("list_inaddr", 0x01 | 0x04 | 0x08, 0x04 | 0x08 | 0x02, reg(l=1, i=1)),
            ("list_inaddr_gone", 0x04 | 0x08, 0, reg(l=1)),
            ("all_same", 0x3f, 0x3f, reg(a=1, b=2, l=1, i=1, o=1, oa=2)),
        ]
    out = []
    for name, p0, p1, r in sc:
        d = {"_name": name, "VP_P0": hex(p0), "VP_P1": hex(p1), "VP_REG": hex(r), "WITH_B": None, "WITH_OBJ": None}
        if (p0 | p1) & 0x04:
            d["WITH_LIST"] = None
        if (p0 | p1) & 0x08:
            d["WITH_INADDR"] = None
        out.append(d)
    return out


RECIPES["C15"] = {
    "units": ["src/config.c", "src/set.c", "src/common.c"],
    "jobs": [
        {"name": "merge", "src": ["C15_merge.c"] + CONFIG_TU, "gen": _gen_shim.gen,
         "splits": {"quick": _merge_scen(False), "thorough": _merge_scen(True)},
         "unwind": 8, "unwindset": CONFIG_UW, "fp_restrict": FP_CONFIG, "timeout": 900},
    ],
}

RECIPES["C15"]["jobs"].insert(0,
    {"name": "node", "src": ["C15_node.c"] + CONFIG_TU, "gen": _gen_shim.gen,
     "splits": {"all": [{"_name": "%s_r%d%d%d" % (k[2:].lower(), r, a, b), k: None, "REG": r, "IN0": a, "IN1": b}
                        for k in ("K_STRING", "K_INADDR", "K_LIST") for r in (0, 1) for a in (0, 1) for b in (0, 1)]},
     "unwind": 6, "unwindset": CONFIG_UW, "fp_restrict": FP_CONFIG, "timeout": 900})

RECIPES["C17"] = {
    "units": ["src/config.c", "modules/iauth_xquery.c", "modules/iauth_class.c"],
    "jobs": [
        {"name": "xquery", "src": ["C17_reload.c", "repo:modules/iauth_misc.c", "repo:src/set.c", "repo:src/common.c", "repo:src/bitset.c",
                                   "env/rec.c", "env/iauth_env.c", "env/config_env.c", "env/core_env.c", "env/libc_models.c"],
         "gen": _gen_shim.gen,
         "splits": {"all": [{"_name": "add", "VP_M0": 1, "VP_M1": 3}, {"_name": "remove", "VP_M0": 3, "VP_M1": 1},
                            {"_name": "inplace", "VP_M0": 3, "VP_M1": 3}, {"_name": "swap", "VP_M0": 1, "VP_M1": 2},
                            {"_name": "from_empty", "VP_M0": 0, "VP_M1": 3}, {"_name": "to_empty", "VP_M0": 3, "VP_M1": 0}]},
         "unwind": 14, "unwindset": CONFIG_UW + ["strcmp.0:14", "strcasecmp.0:14", "strlen.0:14", "strcpy.0:14", "dup_type.0:14"],
         "fp_restrict": FP_CONFIG, "timeout": 900},
    ],
}

RECIPES["C17"]["jobs"].append(
    {"name": "class", "src": ["C17_class.c", "repo:modules/iauth_misc.c", "repo:src/set.c", "repo:src/common.c", "repo:src/bitset.c",
                              "env/rec.c", "env/iauth_env.c", "env/config_env.c", "env/core_env.c", "env/libc_models.c"],
     "gen": _gen_shim.gen,
     # per rule 4 bits: present, class, account, trust_username; low nibble rule p, high nibble rule q
     "splits": {"all": [{"_name": "add_rule", "VP_R0": "0x03", "VP_R1": "0x73"}, {"_name": "remove_rule", "VP_R0": "0x73", "VP_R1": "0x70"},
                        {"_name": "inplace_value", "VP_R0": "0x0f", "VP_R1": "0x0f"}, {"_name": "add_criterion", "VP_R0": "0x03", "VP_R1": "0x07"},
                        {"_name": "drop_criterion", "VP_R0": "0x3f", "VP_R1": "0x33"}, {"_name": "from_empty", "VP_R0": "0x00", "VP_R1": "0x37"}]},
     "unwind": 14, "unwindset": CONFIG_UW + ["strcmp.0:14", "strcasecmp.0:16", "strlen.0:16", "strcpy.0:16", "boolword.0:8",
                                             "iauth_class_conf_changed.0:4", "iauth_class_conf_changed.1:4", "iauth_class_free_rules.0:4"],
     "fp_restrict": FP_CONFIG, "timeout": 900})


def _parse_splits(thorough):
    ok = [("str_bare", "a w;", "EXPECT_STRING_A"), ("str_quoted", 'a \\"q\\";', "EXPECT_STRING_A_Q"), ("escape", 'a \\"\\\\\\\\q\\";', "EXPECT_ESCAPE"),
          ("list_paren", "l (w, w);", "EXPECT_LIST"), ("list_comma", "l w, w\\\\n", "EXPECT_LIST"),
          ("obj_last_brace", "o { a w; b w };", "EXPECT_OBJ_AB"), ("obj_repeat", "o{a w;};o{b w;};", "EXPECT_OBJ_AB"),
          ("dup_later_wins", "a w;a w;", "EXPECT_STRING_A_LAST"), ("inaddr", "h w w;", "EXPECT_INADDR"),
          ("cxx_comment", "a w // q\\\\nb w;", "EXPECT_TWO"), ("c_comment", "a w /* q */; b w\\\\n", "EXPECT_TWO"),
          ("c_comment_tight", "a w/*q*/;b w;", "EXPECT_TWO"), ("c_comment_stars", "a w/*qq*/;b w;", "EXPECT_TWO"),
          ("newline_term", "a w\\\\nb w\\\\n", "EXPECT_TWO")]
    bad = [("trunc_list", "l (w,"), ("trunc_obj", "o { a w;"), ("trunc_quote", 'a \\"q'), ("trunc_comment", "a w /* q"),
           ("three_words", "a w w w;"), ("any3", "qqq"), ("any4", "qqqq"), ("name_any", "a q"), ("obj_any", "o { q }")]
    if thorough:
        ok += [("list_then_entry", "l w, w\\\\nb w;", "EXPECT_LIST"), ("obj_compact", "o {a w;b w}\\n", "EXPECT_OBJ_AB")]
        bad += [("any5", "qqqqq"), ("quote_any", 'a \\"qq\\";'), ("list_any", "l (q, q);")]
    out = []

    def uw(t):
        n = len(t.replace("\\\\", "\\").replace('\\"', '"'))
        return max(21, n + 4)

    def depth(t):
        return 3 if "{" in t or "q" in t else 2
    for name, t, exp in ok:
        d = {"_name": "ok_" + name, "VP_TMPL": '"%s"' % t, "EXPECT_OK": None, "VP_UW": uw(t), "VP_DEPTH": depth(t)}
        if exp == "EXPECT_STRING_A_Q":
            d["EXPECT_STRING_A"] = None
            d["QUOTED_PAYLOAD"] = None
        else:
            d[exp] = None
        out.append(d)
    for name, t in bad:
        out.append({"_name": "any_" + name, "VP_TMPL": '"%s"' % t, "VP_UW": uw(t), "VP_DEPTH": depth(t)})
    return out


PARSE_UW = CONFIG_UW + [lambda d: "conf_parse_entry:%d" % int(d.get("VP_DEPTH", 3)), "conf_read.0:20", "strcmp.0:6", "ctype_init.0:31", "ctype_init.1:17", "harness.0:90", "vp_fread.0:90",
                        "memcpy.0:40", "char_vector_reserve.0:8"]
RECIPES["C14"] = {
    "units": ["src/config.c", "src/set.c", "src/common.c"],
    "jobs": [
        {"name": "parse", "src": ["C14_parse.c", "env/file_env.c"] + CONFIG_TU, "gen": _gen_shim.gen,
         "splits": {"quick": _parse_splits(False), "thorough": _parse_splits(True)},
         "unwind": "VP_UW", "unwindset": PARSE_UW, "fp_restrict": FP_CONFIG, "timeout": 900},
    ],
}

RECIPES["C14"]["jobs"] = [
    {"name": "tok", "src": ["C14_tok.c"] + CONFIG_TU, "gen": _gen_shim.gen,
     "splits": {"quick": [{"VP_LEN": n} for n in (1, 2, 3, 4)], "thorough": [{"VP_LEN": n} for n in range(1, 6)]},
     "unwind": "VP_LEN + 3", "unwindset": ["ctype_init.0:31", "ctype_init.1:17", "harness.0:12", "harness.1:12", "harness.2:12"],
     "fp_restrict": FP_CONFIG, "timeout": 900},
]


_VALID = 'a x; l (p, e);\\nh r s\\no { a y; b "z" };\\n// c\\nk v, u\\n'      # no 'w'/'q': those letters mean "symbolic byte" in VP_TMPL


def _atomic_splits(thorough):
    """Every proper prefix of a valid file (peer death / truncated write at every byte), and
    the file with one byte replaced by a structural character at every position."""
    raw = _VALID.replace("\\n", "\n").replace('\\"', '"')   # the real bytes
    def lit(t):
        return '"' + t.replace("\\", "\\\\").replace('"', '\\"').replace("\n", "\\n") + '"'
    out = []
    step = 1 if thorough else 2
    for k in range(0, len(raw), step):
        out.append({"_name": "cut%02d" % k, "VP_TMPL": lit(raw[:k]), "SYMBOLIC_PRIOR": None, "VP_UW": len(raw) + 4, "VP_DEPTH": 3})
    flips = "{}();,\"" if thorough else "{\""
    for k in range(0, len(raw), 1 if thorough else 3):
        for ch in flips:
            if raw[k] == ch:
                continue
            t = raw[:k] + ch + raw[k + 1:]
            out.append({"_name": "flip%02d_%02x" % (k, ord(ch)), "VP_TMPL": lit(t), "SYMBOLIC_PRIOR": None, "VP_UW": len(raw) + 4, "VP_DEPTH": 3})
    return out


RECIPES["C14"]["jobs"].append(
    {"name": "atomic", "src": ["C14_parse.c", "env/file_env.c"] + CONFIG_TU, "gen": _gen_shim.gen,
     "splits": {"quick": _atomic_splits(False), "thorough": _atomic_splits(True)},
     "unwind": "VP_UW", "unwindset": PARSE_UW, "fp_restrict": FP_CONFIG, "timeout": 600})

RECIPES["C16"]["jobs"].append(
    {"name": "tok", "src": ["C14_tok.c"] + CONFIG_TU, "gen": _gen_shim.gen,
     "splits": {"quick": [{"VP_LEN": n} for n in (2, 3, 4)], "thorough": [{"VP_LEN": n} for n in range(1, 6)]},
     "unwind": "VP_LEN + 3", "unwindset": ["ctype_init.0:31", "ctype_init.1:17", "harness.0:12", "harness.1:12", "harness.2:12"],
     "fp_restrict": FP_CONFIG, "timeout": 900})
# white space and both comment styles on every byte string
RECIPES["C16"]["jobs"].append(
    {"name": "space", "src": ["C16_space.c"] + CONFIG_TU, "gen": _gen_shim.gen,
     "splits": {"quick": [{"VP_LEN": 5}, {"VP_LEN": 6}], "thorough": [{"VP_LEN": n} for n in (3, 5, 6, 7, 8)]},
     "unwind": "VP_LEN + 3", "unwindset": ["ctype_init.0:31", "ctype_init.1:17"],
     "fp_restrict": FP_CONFIG, "timeout": 900})

FP_LOG = dict(FP_CONFIG)
FP_LOG.update({
    "log_vmessage.function_pointer_call.1": ["rec_log"], "log_vmessage.function_pointer_call.2": ["rec_log"],
    "log_destination_cleanup.function_pointer_call.1": ["rec_close"],
    "log_destination_open.function_pointer_call.1": ["rec_open_A", "rec_open_B", "rec_open_C"],
    "log_reopen.function_pointer_call.1": ["rec_reopen"],
})


def _log_pairs(thorough):
    pairs = [(0, 1), (1, 2), (2, 3), (3, 4), (5, 0), (1, 1)]
    if thorough:
        pairs += [(4, 5), (2, 5), (5, 2), (3, 1), (0, 0), (4, 4)]
    out = [{"_name": "s%d_s%d" % p, "VP_S0": p[0], "VP_S1": p[1]} for p in pairs]
    for k in ((0, 1, 2, 3, 4, 5, 6, 7) if thorough else (1, 2, 3)):
        out.append({"_name": "s%d" % k, "VP_S0": k, "VP_S1": k, "ONE_LOAD": None})
    return out


def _sev_exprs(thorough):
    """Severity-expression layouts: 'N' / 'M' = a symbolic 5- / 7-letter severity name."""
    ex = ["N", "=M", ">=N", ">M", "<=N", "<M", "N,M", ">N,<=M", "*", "N,", "<=M,=N,>N", "N;M", "!N", ">=N,M", "<M,N", ">N,=M", "N,>=M"]
    if thorough:
        ops = ["", "=", ">", ">=", "<", "<="]
        for a in ops:
            for b in ops:
                for x, y in (("N", "M"), ("M", "N")):
                    e = a + x + "," + b + y
                    if e not in ex:
                        ex.append(e)
        ex += ["N,M,N", ">=M,N,<N", "*,N", "N,*", ">=", "N,,M", "=>N", "N.M"]
    return [{"_name": "e%02d" % i, "VP_EXPR": '"%s"' % e} for i, e in enumerate(ex)]


RECIPES["C18"] = {
    "units": ["src/log.c", "src/config.c", "src/set.c", "src/common.c"],
    "jobs": [
        {"name": "fanout", "src": ["C18_fanout.c"] + CONFIG_TU, "gen": _gen_shim.gen,
         "defs": {"all": {"VP_HAVE_LOG": None}},
         "splits": {"all": [{}, {"VERBOSE1": None}]},
         "unwind": 12, "unwindset": CONFIG_UW + ["strcmp.0:24", "strcasecmp.0:8", "strlen.0:24", "strcpy.0:24", "memcpy.0:40",
                                                 "vpm_num.0:12", "vpm_num.1:12", "vpm_num.2:12", "vpm_num.3:12", "log_vmessage.0:5", "log_vmessage.1:5", "strchr.0:24"],
         "fp_restrict": FP_LOG, "timeout": 900},
        # severity expressions: works since the working copy made by log_parse_type_sevset() is modelled
        # as a block of fixed size (harness/C18_sevset.c); with the real xstrdup() the allocation has
        # symbolic size and no layout finished inside 10 min / 20 GB
        {"name": "sevset", "src": ["C18_sevset.c"] + CONFIG_TU, "gen": _gen_shim.gen,
         "defs": {"all": {"VP_HAVE_LOG": None}},
         "splits": {"quick": _sev_exprs(False), "thorough": _sev_exprs(True)},
         "unwind": 50,  "unwindset": CONFIG_UW + ["strcmp.0:24", "strcasecmp.0:12", "strlen.0:40", "strcpy.0:40", "strchr.0:40",
                                                 "log_parse_type_sevset.0:8", "log_parse_type_sevset.1:8", "log_parse_type_sevset.2:8",
                                                 "log_parse_type_sevset.3:8", "log_parse_type_sevset.4:8", "vp_xstrdup48.0:50"],
         "fp_restrict": FP_LOG, "timeout": 600},
        {"name": "route", "tiers": [], "src": ["C18_route.c"] + CONFIG_TU, "gen": _gen_shim.gen,
         "defs": {"all": {"VP_HAVE_LOG": None, "VP_TYPED_REALLOC": None}},
         "splits": {"quick": _log_pairs(False), "thorough": _log_pairs(True)},
         "unwind": 24, "unwindset": CONFIG_UW + ["strcmp.0:24", "strcasecmp.0:24", "strlen.0:24", "strcpy.0:24", "strchr.0:24", "memcpy.0:40",
                                                 "log_type_cleanup.0:8", "log_type_cleanup.1:8", "vp_xstrdup48.0:50", "vp_log_memcpy.0:40", "realloc.0:40", "realloc.1:80", "ctype_init.0:31", "ctype_init.1:17", "vpm_num.0:12", "vpm_num.1:12", "vpm_num.2:12", "vpm_num.3:12"],
         "fp_restrict": FP_LOG, "timeout": 900},
    ],
}

# ---- texts for MANIFEST.json (level claimed / trusted base), per property ----
_T = "bounded symbolic execution of the real C units with CBMC 6.11 (goto-cc, goto-instrument --restrict-function-pointer, SAT: minisat/cadical), unwinding assertions on; counterexamples replayed natively under ASan/UBSan"
_STEP_TEXT = ("inductive step over the real IAuth modules: from EVERY state of two requests, their xquery records and two services that satisfies the "
              "representation invariant inv(), ONE event (kind enumerated by the driver, payload symbolic) is executed by the real handler; the solver proves the "
              "property's per-step obligations on the captured output lines and inv() again, for all values. Histories of any length follow by induction; width is bounded (2 requests, 2 services, short strings)")
_STEP_NOTE = ("trusted: inv() written by hand (C_step.c) and its base case (event C); the libevent/clock model (env/iauth_env.c); the decision-layer recorder (env/rec.c) - "
              "rendering is decided separately by C09; typed-allocation model of set_node_alloc; CBMC itself. Outside: >2 concurrent clients per step, real timers, chunking")
META = {
    "C01": (_STEP_TEXT + ". Obligations: at most one verdict and one soft-done per instance, nothing names a client after its verdict / withdrawal, no line names an id or tag that is not live.", _STEP_NOTE),
    "C02": (_STEP_TEXT + ". Obligations: acceptance only if required data (or hurry-up) present, no awaited service (or timeout expired), no unmet +!; a refused client is never accepted.", _STEP_NOTE),
    "C03": (_STEP_TEXT + ". Obligations: whenever the event completes the conditions the verdict is in the same step; the hold counters say exactly what is pending afterwards.", _STEP_NOTE),
    "C04": (_STEP_TEXT + ". Obligations: a reply whose tag/service does not name an awaited service of a current instance produces no output and changes nothing (records compared bytewise). Plus `tag`: every tag text with up to 9/12 hex digits per side selects a request only if it denotes its id and serial without truncation.", _STEP_NOTE),
    "C05": (_STEP_TEXT + ". Obligations: NO/AGAIN/MORE texts relayed verbatim to that client only; R exactly when a login-type service vouched an account (first stamp kept), +x when hiding was requested, class as assigned.", _STEP_NOTE),
    "C06": (_STEP_TEXT + ". Obligations: the set of services queried in the step equals the reference set (configured, prerequisites now complete, not yet asked / re-asked on a well-formed password); CHECK/LOGIN/LOGIN2 carry this client's fields (ident else ~claimed name, within USERLEN); a malformed password is neither stored nor forwarded.", _STEP_NOTE),
    "C07": (_STEP_TEXT + ". Obligations (frame): an event about one client leaves every other request record and xquery record byte-identical and emits no line naming them; `two`: two events in sequence (A then B) - nothing left in module statics by the first leaks into the second's lines.", _STEP_NOTE),
    "C08": ("one input line through the real iauth_read (id parse, 16-slot tokenizer, lookup, dispatch, handler) from every inv() state: the line LAYOUT and command letter are enumerated by the driver (bare command, arguments, trailing argument, 17 arguments, unknown id, no id, two lines in one read - with the request in an arbitrary and in the freshly announced state), payload bytes symbolic; obligations: CBMC's memory-safety checks on the whole path, lines consumed, unknown id/command is a no-op, EOF requests a clean exit and changes nothing",
            "trusted: evbuffer model hands out complete lines (chunk reassembly is libevent's); irc_pton/irc_ntop replaced by their contract (decided in C12/C13); invariant and recorder as in the step harness. Outside: arbitrary byte streams beyond the layouts, hangs inside libevent"),
    "C09": ("formatting layer: for every format literal passed to iauth_send in the three modules (list extracted from /repo on every run) the real iauth_send renders exactly <word> [<id> <addr> <port>]<rest> in one fputs + one newline + one flush, byte for byte, with symbolic %s contents, symbolic address text and id/port chosen among boundary values; an over-long (1100-byte) argument is truncated to 1023 bytes memory-safely. stdout isolation of the logger at verbosity 0 is decided in C18 fanout. `announce`: an announcement (real parse_client) stores the announced id, port and address text. `addr_text`: the text irc_ntop prints for EVERY IPv6 address is read back by a standard parser as that address (quick: groups <= 0xf; thorough full width).",
            "trusted: byte-exact printf model (env/libc_models.c; native replay uses glibc); numbers restricted to boundary values (decimal rendering is libc's). Outside: that every record the decision layer produces is rendered through these literals (by construction of the recorder); the announced address text itself is parsed by irc_pton (C13)"),
    "C10": (_STEP_TEXT + ". Obligations: table size = live instances after every event, alloc/free counters balance, a finished request's timer is freed in the same step and a live one's is kept; `teardown`: EOF then the module destructors free every request, record, timer, the input event and buffer exactly once (CBMC --memory-leak-check).", _STEP_NOTE),
    "C11": ("the real iauth_class_assign on a compiled vector of 1..3 rules with symbolic presence of every criterion, symbolic masks/prefix lengths, class present or not, trust_username; symbolic client (address, account with or without :stamp, ident, pre-assigned class, xquery masks). fnmatch is UNINTERPRETED (arbitrary consistent verdicts), so the result holds for every glob semantics. Obligations: deciding rule has all present criteria satisfied, every earlier rule definitely fails one, later rules are not evaluated, account glob sees the account without its stamp, class = value else name, U line exactly for trust_username with a ~ident",
            "trusted: uninterpreted fnmatch model; compile order of rules follows from C19 (ordered set) and strcasecmp; typed allocation model. Outside: glibc fnmatch semantics, more than 3 rules"),
    "C12": ("irc_ntop on every address: all 16 bytes symbolic. Text fits, NUL-terminated, never starts with ':', is accepted whole by irc_pton and by an RFC 4291 reference parser (glibc inet_pton is consulted in native replay) and denotes the same address (IPv4-compatible canonicalised to mapped); print(parse(print(a))) == print(a). quick: groups <= 0xf (all 256 zero patterns) plus two groups over their whole range; thorough: all 2^128 addresses.",
            "trusted: the reference parser ref_inet6/ref_inet4 (cross-checked against glibc on every replay); printf model for the IPv4 branch"),
    "C13": ("irc_check_mask on every (address, mask, length) incl. lengths > 128; irc_pton on every byte string of 1..5/9 bytes (memory safety, result within the string, agreement with the standard parsers where both accept); CIDR / wildcard layouts (driver) with symbolic digits: documented prefix length and network bits, then irc_check_mask(x, parsed) <=> x in the written network for a symbolic x",
            "trusted: reference parsers; CBMC union imprecision worked around by reading parsed addresses through in6[] only. Outside: free-form strings longer than 5/9 bytes"),
    "C14": ("`tok`: conf_parse_string/conf_parse_whitespace on every byte string of 1..4/7 bytes: terminates, memory-safe, cursor inside the text, quoted strings decode per the reference, errors are the documented kinds. `atomic`: for every truncation offset and structural byte flip of a valid file (driver), on top of a configuration whose values are SYMBOLIC: if conf_read reports an error every registered value, the present set and the node set are unchanged and no hook ran; the error tail is memory-safe",
            "trusted: longjmp model that continues conf_read from the current source (env/jmp_model.h, gen_shim.py); fake file; CBMC-only shadow header for the enum bit-field. Outside: the entry parser on symbolic text (does not terminate symbolically, DESIGN A2.9)"),
    "C15": ("`node`: one merge step of the real conf_replace_value on one live node of each kind, for every combination of registered / in file 1 / in file 2 (driver) and symbolic values (any character, may equal each other or the default): value = file else default, unregistered leftovers vanish, hook exactly when the effective value changes, ownership (CBMC double-free / deallocated checks). `merge`: object-level ordered merge scenarios (splice, revert, in place, registered after load) with symbolic values",
            "trusted: scratch trees are materialised as the parser does (conf_parse_get_child); shadow header. Outside: more than two loads, larger universes"),
    "C16": ("typed parsers on every string <= 5/8 bytes (boolean keywords, integer, interval/volume alphabets) and on grammar templates with symbolic digits and unit letters (value = sum of components mod 2^32); tokenizer decoding of quoted strings (shared with C14 tok)",
            "trusted: strtoul model (glibc in replay). Outside: render/read-back through the entry parser on symbolic text (DESIGN A2.9); floats; (digits, components) beyond (1,3),(3,1)"),
    "C17": ("start-up (first file merged by the real conf_replace_value, then the real module constructor) and reload (second file merged): afterwards the xquery service table / the compiled class rules equal the SECOND file, for every edit kind (add, remove, in place, swap, to/from empty; criterion added/dropped/changed) with symbolic protocol words, class values, patterns, boolean words and symbolic per-service reference counts",
            "trusted: files are materialised as scratch trees (parser bypassed); shadow header. Outside: SIGUSR1 delivery; more than 2 services / rules"),
    "C18": ("(1) log_vmessage fan-out on an ARBITRARY routing table (3 facilities x 6 severities x any subset of 3 destinations, written into the real log_type objects) and a symbolic message (facility, severity): recorded exactly by the destinations of its facility and of `*`, once per mapping, attributed and complete; at verbosity 0 nothing reaches stdout (C09), at verbosity 1 exactly warnings and errors. "
            "(2) log_parse_type_sevset on 17 expression layouts (names, =, <, <=, >, >=, comma lists in every order of range and plain items, *, trailing comma, unknown syntax) with SYMBOLIC severity names (incl. a non-name): accepted exactly when in the documented syntax, and the severity set is the documented meaning; anything else rejected as a whole",
            "trusted: recording back end; the fixed-size model of the working copy xstrdup() makes (C18_sevset.c). Outside (not decided): log_rescan_conf joining the two (attaching the destinations of each accepted entry, reload, destination life cycle) - harness C18_route.c exists but does not finish (DESIGN A2.11); file back end"),
    "C19": ("comparator lemmas on the whole key domain (total order, consistency with equality); one operation (insert fresh/equal, remove with/without disposal, find, lower bound, clear with/without disposal) with symbolic keys and operand from EVERY binary-tree shape of <= 4/6 nodes (driver enumerates 23/197 shapes): results agree with the sorted-array model, post-state is a search tree whose in-order walk = threaded list = model, count right, cleanup exactly once on exactly the elements that left",
            "trusted: the audit in C19_step.c; every shape is a pre-state and every post-state is shown to be a valid shape, so sequences of operations on sets of <= 4/6 elements are covered by induction"),
}
for _k, (_lt, _ln) in META.items():
    if _k in RECIPES:
        RECIPES[_k]["level_text"] = _lt
        RECIPES[_k]["level_note"] = _ln
        RECIPES[_k]["technique"] = _T
NOT_APPLICABLE["C20"] = ("the property quantifies over the dependency GRAPH, which is the shape of the module table. Measured with harness/C20_graph.c (3 stub modules, real src/module.c): "
                         "(a) dependency matrix symbolic: symbolic execution of module_load<->constructor<->module_depends gives no verdict in 25 min; "
                         "(b) graph concrete per query and only the failing dlopen symbolic: the set of loaded modules still forks, only the edge-free graph is decided (0.7 s), a 3-chain gives no verdict in 5 min; "
                         "(c) cbmc --paths lifo on the symbolic matrix: 32161 paths solved in 15 min without exhausting them; "
                         "(d) everything enumerated: nothing symbolic remains, the run would be a test and not a solver verdict (DESIGN A6)")
RECIPES["C20"]["na_reason"] = NOT_APPLICABLE["C20"]

RECIPES["C16"]["jobs"].append(
    {"name": "typed_delivery", "src": ["C15_node.c"] + CONFIG_TU, "gen": _gen_shim.gen,
     "splits": {"all": [{"_name": "int_r1%d%d" % (a, b), "K_TYPED": None, "REG": 1, "IN0": a, "IN1": b} for a in (0, 1) for b in (0, 1) if a or b]},
     "unwind": 6, "unwindset": CONFIG_UW + ["strtoul.0:6", "strtoul.1:6", "memcmp.0:10", "memcpy.0:10"], "fp_restrict": FP_CONFIG, "timeout": 900})
