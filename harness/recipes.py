# recipes.py - which harnesses decide which property, with which bounds.
# See bin/check for the meaning of the fields.

MISC = ["repo:modules/iauth_misc.c", "env/misc_env.c", "env/libc_models.c"]

RECIPES = {}

RECIPES["C13"] = {
    "units": ["modules/iauth_misc.c"],
    "jobs": [
        {"name": "mask", "src": ["C13_mask.c"] + MISC,
         "splits": {"all": [{}, {"BITS_BEYOND": None}]},
         "unwind": 130, "unwindset": ["irc_check_mask.0:9"]},
    ],
}

RECIPES["C12"] = {
    "units": ["modules/iauth_misc.c"],
    "jobs": [
        {"name": "ntop", "src": ["C12_ntop.c"] + MISC,
         "splits": {"all": [{}, {"V4": None}]},
         "unwind": 44, "timeout": 1500},
    ],
}

CORE = ["repo:src/set.c", "repo:src/common.c", "repo:src/bitset.c", "env/core_env.c", "env/libc_models.c"]

def _shapes(n):
    """All binary-tree shapes over in-order indices 0..n-1 as (root, L[], R[])."""
    def build(lo, hi):  # [lo,hi)
        if lo >= hi:
            return [(-1, {})]
        out = []
        for r in range(lo, hi):
            for lroot, lmap in build(lo, r):
                for rroot, rmap in build(r + 1, hi):
                    m = {}
                    m.update(lmap); m.update(rmap)
                    m[r] = (lroot, rroot)
                    out.append((r, m))
        return out
    res = []
    for root, m in build(0, n):
        L = [m[i][0] for i in range(n)] or [-1]
        R = [m[i][1] for i in range(n)] or [-1]
        res.append((max(root, 0), L, R))
    return res


def _shape_splits(nmax):
    out = []
    for n in range(0, nmax + 1):
        for k, (root, L, R) in enumerate(_shapes(n)):
            out.append({"_name": "n%d_s%d" % (n, k), "VP_N": n, "VP_ROOT": root,
                        "VP_L": ",".join(map(str, L)), "VP_R": ",".join(map(str, R))})
    return out


RECIPES["C19"] = {
    "units": ["src/set.c", "src/common.c"],
    "jobs": [
        {"name": "cmp", "src": ["C19_cmp.c"] + CORE,
         "splits": {"all": [{"CMP_INT": None}, {"CMP_VOIDP": None}, {"CMP_PTR": None}, {"CMP_CHARP": None}]},
         "unwind": 6, "timeout": 300},
        {"name": "step", "src": ["C19_step.c"] + CORE,
         "splits": {"quick": _shape_splits(4), "thorough": _shape_splits(6)},
         "unwind": "VP_N + 3", "timeout": 600, "fp_removal": True},
    ],
}

CONFIG = ["repo:src/config.c", "env/config_env.c"] + CORE

RECIPES["C16"] = {
    "units": ["src/config.c"],
    "jobs": [
        {"name": "typed", "src": ["C16_typed.c"] + CONFIG,
         "splits": {"all": [{"T_BOOLEAN": None}, {"T_INTEGER": None}, {"T_INTERVAL_ANY": None}, {"T_VOLUME_ANY": None}]},
         "defs": {"quick": {"VP_L": 5}, "thorough": {"VP_L": 8}},
         "unwind": 22, "timeout": 600},
        # value semantics on grammar templates: symbolic digits and unit letters.  The
        # (digits per number, components) pairs are what the SAT back end (cadical) decides
        # inside the budget: symbolic-by-constant multiplications make (2,2) and beyond time out.
        {"name": "typedval", "src": ["C16_typed.c"] + CONFIG,
         "splits": {"quick": [{"T_INTERVAL_TMPL": None, "VP_ND": 1, "VP_NCOMP": 3}, {"T_INTERVAL_TMPL": None, "VP_ND": 3, "VP_NCOMP": 1},
                              {"T_VOLUME_TMPL": None, "VP_ND": 1, "VP_NCOMP": 3}, {"T_VOLUME_TMPL": None, "VP_ND": 3, "VP_NCOMP": 1},
                              {"T_INTERVAL_COLON": None, "VP_ND": 2}],
                    "thorough": [{"T_INTERVAL_TMPL": None, "VP_ND": 1, "VP_NCOMP": 3}, {"T_INTERVAL_TMPL": None, "VP_ND": 3, "VP_NCOMP": 1},
                              {"T_VOLUME_TMPL": None, "VP_ND": 1, "VP_NCOMP": 3}, {"T_VOLUME_TMPL": None, "VP_ND": 3, "VP_NCOMP": 3},
                              {"T_INTERVAL_COLON": None, "VP_ND": 3}]},
         "unwind": 22, "timeout": 900, "flags": ["--sat-solver", "cadical"]},
    ],
}
