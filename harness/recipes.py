# recipes.py - which harnesses decide which property, with which bounds.
# See bin/check for the meaning of the fields.

MISC = ["repo:modules/iauth_misc.c", "env/misc_env.c", "env/libc_models.c"]

RECIPES = {}

RECIPES["C13"] = {
    "units": ["modules/iauth_misc.c"],
    "jobs": [
        {"name": "mask", "src": ["C13_mask.c"] + MISC,
         "splits": {"all": [{}, {"BITS_BEYOND": None}]},
         "unwind": 130, "unwindset": ["irc_check_mask.0:9"]},
    ],
}

RECIPES["C12"] = {
    "units": ["modules/iauth_misc.c"],
    "jobs": [
        {"name": "ntop", "src": ["C12_ntop.c"] + MISC,
         "splits": {"all": [{}, {"V4": None}]},
         "unwind": 44, "timeout": 1500},
    ],
}

CORE = ["repo:src/set.c", "repo:src/common.c", "repo:src/bitset.c", "env/core_env.c", "env/libc_models.c"]

RECIPES["C19"] = {
    "units": ["src/set.c", "src/common.c"],
    "jobs": [
        {"name": "cmp", "src": ["C19_cmp.c"] + CORE,
         "splits": {"all": [{"CMP_INT": None}, {"CMP_VOIDP": None}, {"CMP_PTR": None}, {"CMP_CHARP": None}]},
         "unwind": 6, "timeout": 300},
    ],
}
