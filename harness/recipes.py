# recipes.py - which harnesses decide which property, with which bounds.
# See bin/check for the meaning of the fields.

MISC = ["repo:modules/iauth_misc.c", "env/misc_env.c"]

RECIPES = {}

RECIPES["C13"] = {
    "units": ["modules/iauth_misc.c"],
    "jobs": [
        {"name": "mask", "src": ["C13_mask.c"] + MISC,
         "splits": {"all": [{}, {"BITS_BEYOND": None}]},
         "unwind": 130, "unwindset": ["irc_check_mask.0:9"]},
    ],
}
