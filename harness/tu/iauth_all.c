/* tu/iauth_all.c - inclusion wrapper: the three unmodified IAuth module sources
 * of /repo in one translation unit, so that a harness that #includes this file
 * can reach their file-local state and handlers.  Only names that collide
 * between the modules are renamed; output goes to the decision-layer recorder
 * (env/rec.h) unless VP_REAL_OUTPUT is defined.
 */
#include "modules/iauth.h"
#include <unistd.h>
#include "env/rec.h"

#ifndef VP_REAL_OUTPUT
#define snprintf vp_rec_snprintf
#define vsnprintf vp_rec_vsnprintf
#define fputs vp_rec_fputs
#define fputc vp_rec_fputc
#define fflush vp_rec_fflush
#endif

/* typed allocation of the two node kinds the modules create (see env/alloc.h) */
#include "env/alloc.h"

#define module_constructor core_module_constructor
#define module_destructor core_module_destructor
#define stats core_stats
#include "modules/iauth_core.c"
#undef module_constructor
#undef module_destructor
#undef stats

#define module_constructor xquery_module_constructor
#define module_destructor xquery_module_destructor
#define stats xquery_stats
#define conf xquery_conf
#include "modules/iauth_xquery.c"
#undef module_constructor
#undef module_destructor
#undef stats
#undef conf

#define module_constructor class_module_constructor
#define module_destructor class_module_destructor
#define conf class_conf
#include "modules/iauth_class.c"
#undef module_constructor
#undef module_destructor
#undef conf

/* ---- model of set_node_alloc (declared in env/alloc.h) ---- */
struct vp_req_elt { struct set_node node; struct iauth_request req; };
struct vp_cli_elt { struct set_node node; struct iauth_xquery_client cli; };

struct set_node *vp_node_alloc(size_t size)
{
    if (size == sizeof(struct iauth_request))
        return (struct set_node *)calloc(1, sizeof(struct vp_req_elt));
    if (size == sizeof(struct iauth_xquery_client))
        return (struct set_node *)calloc(1, sizeof(struct vp_cli_elt));
    return (struct set_node *)calloc(1, sizeof(struct set_node) + size);
}
