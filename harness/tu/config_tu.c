/* tu/config_tu.c - inclusion wrapper for src/config.c: gives harnesses access to its
 * file-local functions (conf_parse_get_child, conf_replace_value, the parser) and state
 * (conf_root), and gives the four node kinds a typed, equally zeroed allocation
 * (see env/alloc.h for why).  Nothing else is changed. */
#include "src/common.h"
#include <setjmp.h>

/* both call sites of set_node_alloc() in src/config.c (conf_register_node,
 * conf_parse_get_child) have the node kind in a variable called `type` */
struct set_node *vp_conf_alloc(size_t size, int type);
#ifndef VP_UNTYPED_CONF
#undef set_node_alloc
#define set_node_alloc(SIZE) vp_conf_alloc((SIZE), (int)(type))
#endif

#ifdef VP_MODEL_LONGJMP
/* CBMC has no non-local jump: see harness/env/jmp_model.h */
#include "env/jmp_model.h"
#endif
#ifdef VP_FAKE_FILE
#include "env/file_env.h"
#endif

#include "src/config.c"

/* code included after this wrapper (src/log.c, the IAuth modules) gets the original macro back */
#undef set_node_alloc
#define set_node_alloc(SIZE) ((struct set_node*)xmalloc(sizeof(struct set_node) + (SIZE)))

struct vp_cstr_elt { struct set_node node; struct conf_node_string n; };
struct vp_cina_elt { struct set_node node; struct conf_node_inaddr n; };
struct vp_clst_elt { struct set_node node; struct conf_node_string_list n; };
struct vp_cobj_elt { struct set_node node; struct conf_node_object n; };

struct set_node *vp_conf_alloc(size_t size, int type)
{
    if (type == CONF_STRING && size == sizeof(struct conf_node_string)) return (struct set_node *)calloc(1, sizeof(struct vp_cstr_elt));
    if (type == CONF_INADDR && size == sizeof(struct conf_node_inaddr)) return (struct set_node *)calloc(1, sizeof(struct vp_cina_elt));
    if (type == CONF_STRING_LIST && size == sizeof(struct conf_node_string_list)) return (struct set_node *)calloc(1, sizeof(struct vp_clst_elt));
    if (type == CONF_OBJECT && size == sizeof(struct conf_node_object)) return (struct set_node *)calloc(1, sizeof(struct vp_cobj_elt));
    return (struct set_node *)calloc(1, sizeof(struct set_node) + size);
}

#if defined(VP_MODEL_LONGJMP) && !defined(REPLAY)
#ifndef VP_NO_READ_TAIL
#include "vp_conf_read_tail.h"
#endif
int vp_parse_error;                 /* error code of the modelled longjmp, 0 if none */
void vp_on_parse_error(int code);   /* harness: obligations at the point of the jump */
void vp_longjmp(void *env, int code)
{
    struct conf_parse *parse = ENCLOSING_STRUCT(env, struct conf_parse, env);
    vp_parse_error = code;
#ifndef VP_NO_READ_TAIL
    /* the rest of conf_read(), taken from the current source: the switch on the jump code
     * (its error branch) and the statements after it */
    vp_conf_read_after_jump(parse, "f", code);
#else
    (void)parse;
#endif
    /* conf_read() has now returned `code`: the harness' obligations for a failed load */
    vp_on_parse_error(code);
    __CPROVER_assume(0);
}
#endif
