/* tu/module_tu.c - inclusion wrapper for src/module.c: the module records it allocates
 * with set_node_alloc(sizeof(struct module) + strlen(name) + 1) get a typed, equally zeroed
 * block (see env/alloc.h for why). */
#include "src/common.h"
#include <dlfcn.h>

struct set_node *vp_mod_alloc(size_t size);
#undef set_node_alloc
#define set_node_alloc(SIZE) vp_mod_alloc(SIZE)

#include "src/module.c"

struct vp_mod_elt { struct set_node node; struct module mod; char name[16]; };

struct set_node *vp_mod_alloc(size_t size)
{
    if (size >= sizeof(struct module) && size <= sizeof(struct module) + 16)
        return (struct set_node *)calloc(1, sizeof(struct vp_mod_elt));
    return (struct set_node *)calloc(1, sizeof(struct set_node) + size);
}
