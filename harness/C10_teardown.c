/* C10c: after any history, end of input leads to a clean exit with every request, its
 * per-module data and its timer released - each exactly once.
 *
 * State: NREQ live requests + NSVC services, every field symbolic under inv() (C_step.c).
 * Step: EOF through the real iauth_read(), then the module destructors in the order C20
 * guarantees (dependents first): iauth_class, iauth_xquery, iauth (core).
 * Obligations: clean_exit set; every timer event freed exactly once (environment asserts a
 * second free); input event and buffer freed; CBMC's deallocated-object / double-free checks;
 * --memory-leak-check: nothing the daemon allocated is still allocated at the end.
 */
#define VP_NO_EVENTS
#define VP_HEAP_SVCVEC
#include "C_step.c"

void harness(void)
{
    unsigned j, ntimers;
    build_state();
    memset(&O, 0, sizeof(O));
    iauth_in = evbuffer_new();
    ntimers = vp_nevents;
    iauth_ev = event_new(ev_base, STDIN_FILENO, EV_PERSIST | EV_READ, iauth_read, iauth_in);
    event_add(iauth_ev, NULL);

    vp_read_result = 0;
    iauth_read(0, EV_READ, iauth_in);
    VP_ASSERT(clean_exit == 1 && vp_loopbreak == 1, "C10: end of input requests a clean exit");

    /* module_close_all(): dependents before their dependencies */
#ifdef WITH_CLASS
    class_module_destructor();
#endif
    xquery_module_destructor();
    core_module_destructor();

    for (j = 0; j < ntimers; j++)
        VP_ASSERT(vp_event_freed[j], "C10: the timer of every request is released at exit");
    VP_ASSERT(vp_event_freed[ntimers], "C10: the input event is released at exit");
    VP_ASSERT(vp_evbuffer_freed == 1, "C10: the input buffer is released exactly once");
    VP_ASSERT(vp_nline == 0, "C10: nothing is written to the server channel during teardown");
    VP_COVER(ntimers == NREQ, "teardown with a timer on every request");
    VP_COVER(ntimers == 0, "teardown without timers");
    VP_COVER(1, "teardown reached its end");
}
