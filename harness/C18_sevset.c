/* C18 (severity expressions): log_parse_type_sevset() gives  facility.<expr>  the documented
 * meaning - names, comma lists, =, <, <=, >, >= ranges, * - and rejects unknown syntax (the
 * caller, log_rescan_conf, then ignores the entry as a whole).
 *
 * The expression's LAYOUT is concrete per query: VP_EXPR with 'N' = a symbolic 5-letter
 * severity name (debug / error / fatal, or the non-name "bogus") and 'M' = a symbolic 7-letter
 * one (command / warning); operators and commas literal.  SYMBOLIC: which names.
 * Oracle: the documented meaning evaluated on the chosen names.
 * Real code: log_parse_type_sevset, log_type_register, log_init (src/log.c).
 */
#ifndef VP_HAVE_LOG
#define VP_HAVE_LOG
#endif
#include "tu/config_tu.c"
#define conf log_conf
struct set_node *vp_log_alloc(size_t size);
#undef set_node_alloc
#define set_node_alloc(SIZE) vp_log_alloc(SIZE)
#ifndef REPLAY
/* allocator model for the working copy log_parse_type_sevset() makes of the entry name: a
 * block of FIXED size (48 >= any text the harness builds) filled up to the terminator.  The
 * real xstrdup() sizes the block by strlen(), which for a text with symbolic characters is a
 * symbolic size and does not finish (A2.11); the native replay uses the real xstrdup(). */
static char *vp_xstrdup48(const char *s)
{
    char *p = malloc(48);
    unsigned i;
    __CPROVER_assume(p != NULL);
    for (i = 0; i < 47; i++) {
        p[i] = s[i];
        if (s[i] == '\0')
            break;
    }
    p[47] = '\0';
    return p;
}
#define xstrdup vp_xstrdup48
#endif
#include "src/log.c"
#undef xstrdup
#undef conf
#include "vp.h"

struct vp_lt_elt { struct set_node node; struct log_type lt; char name[16]; };
struct vp_vt_elt { struct set_node node; struct log_destination_vtable vt; };
struct set_node *vp_log_alloc(size_t size)
{
    if (size == sizeof(struct log_destination_vtable))
        return (struct set_node *)calloc(1, sizeof(struct vp_vt_elt));
    if (size >= sizeof(struct log_type) && size <= sizeof(struct log_type) + 16)
        return (struct set_node *)calloc(1, sizeof(struct vp_lt_elt));
    return (struct set_node *)calloc(1, sizeof(struct set_node) + size);
}

static const char *const n5[4] = { "debug", "error", "fatal", "bogus" };
static const int v5[4] = { LOG_DEBUG, LOG_ERROR, LOG_FATAL, -1 };
static const char *const n7[2] = { "command", "warning" };
static const int v7[2] = { LOG_COMMAND, LOG_WARNING };

void harness(void)
{
    static const char expr[] = VP_EXPR;
    const unsigned elen = sizeof(expr) - 1;
    char text[48];
    unsigned n = 0, i, want = 0, ok = 1;
    int val[sizeof(expr)];          /* severity value of the name standing at layout position i (-1: not a name) */
    struct log_type *type = NULL;
    struct severity_bitset set;
    int res;

    log_core = log_type_register("core", NULL);
    text[n++] = 'c'; text[n++] = 'o'; text[n++] = 'r'; text[n++] = 'e'; text[n++] = '.';
    /* the text: placeholders expanded to symbolic names */
    for (i = 0; i < elen; i++) {
        char c = expr[i];
        val[i] = -2;
        if (c == 'N' || c == 'M') {
            unsigned k = c == 'N' ? vp_range(0, 3) : vp_range(0, 1), len = c == 'N' ? 5 : 7, q;
            val[i] = c == 'N' ? v5[k] : v7[k];
            for (q = 0; q < len; q++)
                text[n++] = c == 'N' ? n5[k][q] : n7[k][q];
        } else
            text[n++] = c;
    }
    text[n] = '\0';

    /* the documented meaning, evaluated on the (concrete) layout and the chosen names:
     *   expr := "*" | item { "," item } [ "," ]        item := [ "=" | "<" | "<=" | ">" | ">=" ] name */
    if (elen == 1 && expr[0] == '*')
        want = (1u << LOG_NUM_SEVERITIES) - 1;
    else {
        unsigned pos = 0;
        while (pos < elen) {
            unsigned end = pos, op = 0, p = pos;
            int sv, s;
            while (end < elen && expr[end] != ',')
                end++;
            /* item = expr[pos .. end) */
            if (p < end && expr[p] == '>') { p++; op = 2; if (p < end && expr[p] == '=') { p++; op = 1; } }
            else if (p < end && expr[p] == '<') { p++; op = 4; if (p < end && expr[p] == '=') { p++; op = 3; } }
            else if (p < end && expr[p] == '=') { p++; op = 0; }
            if (end - p != 1 || (expr[p] != 'N' && expr[p] != 'M')) {
                ok = 0;             /* empty item, or something that is not a severity name */
                break;
            }
            sv = val[p];
            if (sv < 0) {
                ok = 0;             /* "bogus" */
                break;
            }
            for (s = 0; s < LOG_NUM_SEVERITIES; s++)
                if ((op == 0 && s == sv) || (op == 1 && s >= sv) || (op == 2 && s > sv) || (op == 3 && s <= sv) || (op == 4 && s < sv))
                    want |= 1u << s;
            pos = end + 1;          /* past the comma; a trailing comma ends the expression */
        }
    }

    res = log_parse_type_sevset(&type, &set, text);

    VP_ASSERT((res == 0) == (ok != 0), "an expression in the documented syntax is accepted, anything else rejected as a whole");
    if (res == 0) {
        VP_ASSERT(type == log_core, "the facility before the dot is looked up");
        VP_ASSERT(set.bits[0] == want, "the severity set is the documented meaning of the expression");
    }
    VP_COVER(res == 0 && want != 0, "opt: accepted");
    VP_COVER(res != 0, "opt: rejected");
}
