/* C18 (severity expressions): log_parse_type_sevset() gives  facility.<expr>  the documented
 * meaning - names, comma lists, =, <, <=, >, >= ranges, * - and rejects unknown syntax (the
 * caller, log_rescan_conf, then ignores the entry as a whole).
 *
 * The expression's LAYOUT is concrete per query: VP_EXPR with 'N' = a symbolic 5-letter
 * severity name (debug / error / fatal, or the non-name "bogus") and 'M' = a symbolic 7-letter
 * one (command / warning); operators and commas literal.  SYMBOLIC: which names.
 * Oracle: the documented meaning evaluated on the chosen names.
 * Real code: log_parse_type_sevset, log_type_register, log_init (src/log.c).
 */
#ifndef VP_HAVE_LOG
#define VP_HAVE_LOG
#endif
#include "tu/config_tu.c"
#define conf log_conf
struct set_node *vp_log_alloc(size_t size);
#undef set_node_alloc
#define set_node_alloc(SIZE) vp_log_alloc(SIZE)
#include "src/log.c"
#undef conf
#include "vp.h"

struct vp_lt_elt { struct set_node node; struct log_type lt; char name[16]; };
struct vp_vt_elt { struct set_node node; struct log_destination_vtable vt; };
struct set_node *vp_log_alloc(size_t size)
{
    if (size == sizeof(struct log_destination_vtable))
        return (struct set_node *)calloc(1, sizeof(struct vp_vt_elt));
    if (size >= sizeof(struct log_type) && size <= sizeof(struct log_type) + 16)
        return (struct set_node *)calloc(1, sizeof(struct vp_lt_elt));
    return (struct set_node *)calloc(1, sizeof(struct set_node) + size);
}

static const char *const n5[4] = { "debug", "error", "fatal", "bogus" };
static const int v5[4] = { LOG_DEBUG, LOG_ERROR, LOG_FATAL, -1 };
static const char *const n7[2] = { "command", "warning" };
static const int v7[2] = { LOG_COMMAND, LOG_WARNING };

void harness(void)
{
    static const char expr[] = VP_EXPR;
    char text[48];
    unsigned n = 0, i, want = 0, ok = 1, pos = 0;
    int op = 0;             /* 0 '=', 1 '>=', 2 '>', 3 '<=', 4 '<' : operator of the current item */
    struct log_type *type = NULL;
    struct severity_bitset set;
    int res;

    log_core = log_type_register("core", NULL);
    text[n++] = 'c'; text[n++] = 'o'; text[n++] = 'r'; text[n++] = 'e'; text[n++] = '.';
    for (i = 0; i < sizeof(expr) - 1; i++) {
        char c = expr[i];
        if (c == 'N' || c == 'M') {
            unsigned k = c == 'N' ? vp_range(0, 3) : vp_range(0, 1), len = c == 'N' ? 5 : 7, q;
            int sv = c == 'N' ? v5[k] : v7[k], s;
            for (q = 0; q < len; q++)
                text[n++] = c == 'N' ? n5[k][q] : n7[k][q];
            if (sv < 0)
                ok = 0;
            else
                for (s = 0; s < LOG_NUM_SEVERITIES; s++)
                    if ((op == 0 && s == sv) || (op == 1 && s >= sv) || (op == 2 && s > sv) || (op == 3 && s <= sv) || (op == 4 && s < sv))
                        want |= 1u << s;
            op = 0;
            pos++;
        } else {
            text[n++] = c;
            if (c == '>') op = 2;
            else if (c == '<') op = 4;
            else if (c == '=' && op == 2) op = 1;
            else if (c == '=' && op == 4) op = 3;
            else if (c == '=') op = 0;
            else if (c == ',') op = 0;
            else if (c == '*') want = (1u << LOG_NUM_SEVERITIES) - 1;
            else ok = 0;        /* any other character is outside the syntax */
        }
    }
    text[n] = '\0';

    res = log_parse_type_sevset(&type, &set, text);

    VP_ASSERT((res == 0) == (ok != 0), "an expression in the documented syntax is accepted, anything else rejected as a whole");
    if (res == 0) {
        VP_ASSERT(type == log_core, "the facility before the dot is looked up");
        VP_ASSERT(set.bits[0] == want, "the severity set is the documented meaning of the expression");
    }
    VP_COVER(res == 0 && want != 0, "opt: accepted");
    VP_COVER(res != 0, "opt: rejected");
}
