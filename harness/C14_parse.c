/* C14 / C16b: reading a configuration text through the real conf_read().
 *
 * The text's LAYOUT is concrete per query (VP_TMPL, enumerated by the driver), its payload
 * symbolic:   'w' a symbolic token character (letter, digit, '-', '.', '_', '#')
 *             'q' a symbolic arbitrary byte (anything but NUL)
 *             anything else literally.
 * Live tree before the read: the result of really reading  "a m; o { a n; };"  (concrete), with
 * "a" and "o"/"a" registered by code (default "d", counting hooks).
 *
 * C14 (total, failed load changes nothing): conf_read() returns (all loops bounded, checked
 * by unwinding assertions), no memory-safety obligation fails - including in the error tail
 * that releases a half-built scratch tree - and when it reports an error the live values are
 * what they were and no hook has run.
 * C16b (text means what it says): for the well-formed layouts (-DEXPECT_...) the value read
 * back is the payload: strings byte for byte, escapes decoded, list items in order, later
 * duplicates win, repeated objects merge, host/service pairs.
 * setjmp/longjmp: env/jmp_model.h.  File I/O: env/file_env.h (fake file = the text).
 * Real code: conf_read, conf_read_file, conf_parse_entry, conf_parse_string,
 * conf_parse_whitespace, conf_parse_get_child, conf_replace_value, ... (src/config.c).
 */
#define VP_MODEL_LONGJMP
#define VP_FAKE_FILE
#include "tu/config_tu.c"
#include "vp.h"
#ifndef REPLAY
#include "vp_tail_check.h"
#endif

static unsigned hook_calls;
static void hook_0(struct conf_node_base *n) { (void)n; hook_calls++; }
static void hook_1(struct conf_node_base *n) { (void)n; hook_calls++; }

static struct conf_node_string *reg_a, *reg_oa;
static struct conf_node_object *reg_o;
static unsigned calls_before;
static char text[64];

static char prior_a = 'm', prior_oa = 'n';      /* the values in force before the read under test */

#ifdef SYMBOLIC_PRIOR
/* a second, successful load whose values are SYMBOLIC (materialised as the parser would and
 * merged by the real conf_replace_value): the configuration in force before the bad file */
static char *one(char c)
{
    char *p = malloc(2);
    VP_ASSUME(p != NULL);
    p[0] = c; p[1] = '\0';
    return p;
}
static void prior_load(void)
{
    struct conf_node_object scratch, *o;
    struct conf_node_string *s;
    prior_a = (char)vp_u8(); prior_oa = (char)vp_u8();
    VP_ASSUME(prior_a != '\0' && prior_oa != '\0');
    memset(&scratch, 0, sizeof(scratch));
    scratch.base.name = ""; scratch.base.type = CONF_OBJECT; scratch.base.specified = 1; scratch.base.present = 1;
    scratch.contents.compare = conf_object_cmp; scratch.contents.cleanup = conf_object_cleanup;
    s = conf_parse_get_child(&scratch, xstrdup("a"), CONF_STRING, sizeof(*s));
    xfree(s->value); s->value = one(prior_a);
    o = conf_parse_get_child(&scratch, xstrdup("o"), CONF_OBJECT, sizeof(*o));
    o->contents.compare = conf_object_cmp; o->contents.cleanup = conf_object_cleanup;
    s = conf_parse_get_child(o, xstrdup("a"), CONF_STRING, sizeof(*s));
    xfree(s->value); s->value = one(prior_oa);
    conf_replace_value(&conf_root.base, &scratch.base);
    set_clear(&scratch.contents, 0);
}
#endif

static int value_is(const struct conf_node_string *s, char c)
{
    return s->value != NULL && s->value[0] == c && s->value[1] == '\0';
}

static void unchanged(void)
{
    VP_ASSERT(value_is(reg_a, prior_a) && value_is(reg_oa, prior_oa), "C14: after a failed load every registered value is what it was");
    VP_ASSERT(reg_a->base.present && reg_o->base.present && reg_oa->base.present, "C14: ... and the set of present nodes is what it was");
    VP_ASSERT(hook_calls == calls_before, "C14: ... and no change notification was delivered");
    VP_ASSERT(set_size(&conf_root.contents) == 2 && set_size(&reg_o->contents) == 1, "C14: ... and no node was added or removed");
}

#ifndef REPLAY
void vp_on_parse_error(int code)
{
    (void)code;
    if (!reg_a) {
        VP_ASSERT(0, "environment: the initial file loads");
        return;
    }
    VP_COVER(1, "opt: the text was rejected (error path)");
    unchanged();
#ifdef EXPECT_OK
    VP_ASSERT(0, "C16: a text in the documented syntax is accepted");
#endif
}
#endif

static char tokchar(void)
{
    char c = (char)vp_u8();
    VP_ASSUME((c >= 'a' && c <= 'z') || (c >= 'A' && c <= 'Z') || (c >= '0' && c <= '9') || c == '-' || c == '.' || c == '_' || c == '#');
    return c;
}

void harness(void)
{
    static const char first[] = "a m; o { a n; };\n";
    static const char tmpl[] = VP_TMPL;
    char w[8];
    unsigned nw = 0, i, n = sizeof(tmpl) - 1;
    int res;

#ifndef REPLAY
    VP_ASSERT(VP_CONF_READ_TAIL_MATCHES_MODEL, "environment: conf_read() still ends with the statements the longjmp model replays");
#endif
    ctype_init();
    conf_get_root();
    /* start-up: a first, valid file; then code registers what it uses */
    vp_file_data = first; vp_file_len = sizeof(first) - 1;
    res = conf_read("f");
    VP_ASSERT(res == 0, "environment: the initial file loads");
    reg_a = conf_register_string(NULL, CONF_STRING_PLAIN, "a", "d");
    reg_a->base.hook = hook_0;
    reg_o = conf_register_object(NULL, "o");
    reg_oa = conf_register_string(reg_o, CONF_STRING_PLAIN, "a", "d");
    reg_oa->base.hook = hook_1;
    VP_ASSERT(value_is(reg_a, 'm') && value_is(reg_oa, 'n'), "environment: the initial values are in force");
#ifdef SYMBOLIC_PRIOR
    prior_load();
    VP_ASSERT(value_is(reg_a, prior_a) && value_is(reg_oa, prior_oa), "environment: the prior values are in force");
#endif
    calls_before = hook_calls;

    /* the text under test */
    for (i = 0; i < n; i++) {
        char c = tmpl[i];
        if (c == 'w') { c = tokchar(); if (nw < 8) w[nw++] = c; }
        else if (c == 'q') { c = (char)vp_u8(); VP_ASSUME(c != '\0'); if (nw < 8) w[nw++] = c; }
        text[i] = c;
    }
    text[n] = '\0';
    vp_file_data = text; vp_file_len = n;

    res = conf_read("f");

#ifdef REPLAY
    if (res != 0) {
        VP_COVER(1, "opt: the text was rejected (error path)");
        unchanged();
    }
#ifdef EXPECT_OK
    VP_ASSERT(res == 0, "C16: a text in the documented syntax is accepted");
#endif
#else
    VP_ASSERT(res == 0, "environment: conf_read() returning normally in the model means success");
#endif

#if defined(EXPECT_STRING_A)
    /* a <payload>;  -> string a == payload[0] */
    VP_ASSERT(value_is(reg_a, w[0]), "C16: a bare or quoted string is read back byte for byte");
    VP_ASSERT(!reg_o->base.present && value_is(reg_oa, 'd'), "C15: a registered setting the file omits reverts to its default");
#elif defined(EXPECT_STRING_A_LAST)
    VP_ASSERT(value_is(reg_a, w[nw - 1]), "C16: a later duplicate overrides an earlier one");
#elif defined(EXPECT_ESCAPE)
    {
        /* a "\q";  with q the symbolic escape character */
        char q = w[0], want = q;
        if (q == 'a') want = '\a'; else if (q == 'b') want = '\b'; else if (q == 'f') want = '\f'; else if (q == 'n') want = '\n';
        else if (q == 'r') want = '\r'; else if (q == 't') want = '\t'; else if (q == 'v') want = '\v';
        if (q == 'x')
            VP_ASSERT(reg_a->value != NULL && reg_a->value[0] == '\0', "C16: \\x without hex digits yields nothing");
        else
            VP_ASSERT(value_is(reg_a, want), "C16: escapes in a quoted string are decoded, any other escaped byte stands for itself");
    }
#elif defined(EXPECT_LIST)
    {
        struct conf_node_string_list *l = conf_get_child(&conf_root, "l", CONF_STRING_LIST);
        VP_ASSERT(l != NULL && l->value.used == 2, "C16: a list of two items is read as two items");
        if (l && l->value.used == 2)
            VP_ASSERT(l->value.vec[0][0] == w[0] && l->value.vec[0][1] == '\0' && l->value.vec[1][0] == w[1] && l->value.vec[1][1] == '\0',
                      "C16: list items are read back in order, byte for byte");
    }
#elif defined(EXPECT_OBJ_AB)
    {
        /* o { a <w0>; b <w1> }  or  o{a w0;}o{b w1;} */
        struct conf_node_string *b = conf_get_child(reg_o, "b", CONF_STRING);
        VP_ASSERT(value_is(reg_oa, w[0]), "C16: an entry inside a nested object is read back");
        VP_ASSERT(b != NULL && value_is(b, w[1]), "C16: a value directly followed by '}' / a repeated object merging is read back");
    }
#elif defined(EXPECT_INADDR)
    {
        struct conf_node_inaddr *a = conf_get_child(&conf_root, "h", CONF_INADDR);
        VP_ASSERT(a != NULL && a->hostname && a->service && a->hostname[0] == w[0] && a->hostname[1] == '\0' && a->service[0] == w[1] && a->service[1] == '\0',
                  "C16: a host/service pair is read back");
    }
#elif defined(EXPECT_TWO)
    {
        /* a <w0> <sep/comment> b <w1>; */
        struct conf_node_string *b = conf_get_child(&conf_root, "b", CONF_STRING);
        VP_ASSERT(value_is(reg_a, w[0]) && b != NULL && value_is(b, w[1]), "C16: terminators, comments and white space separate entries without changing them");
    }
#endif
    VP_COVER(res == 0, "opt: the text was accepted and merged");
#ifndef EXPECT_OK
    VP_COVER(hook_calls != calls_before, "opt: accepted with a changed value");
#endif
}
