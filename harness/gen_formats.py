"""gen_formats.py - build step of the C09 formatting harness: extract every format literal
passed to iauth_send() in /repo's IAuth modules (so that a new call site is picked up) and
emit one checked call per literal."""
import os
import re


def conversions(fmt):
    out = []
    for m in re.finditer(r"%([#0-9.*l]*)([a-zA-Z%])", fmt):
        flags, c = m.group(1), m.group(2)
        if c == "%":
            continue
        out.append((flags, c))
    return out


def gen(repo, outdir):
    lits = []
    for fn in ("modules/iauth_core.c", "modules/iauth_xquery.c", "modules/iauth_class.c"):
        src = open(os.path.join(repo, fn)).read()
        for m in re.finditer(r'\biauth_send\(\s*([A-Za-z_]+)\s*,\s*"((?:[^"\\]|\\.)*)"', src):
            lits.append((m.group(1), m.group(2), fn))
    seen = set()
    lines = ["/* generated from /repo by harness/gen_formats.py - do not edit */"]
    idx = ["/* generated from /repo by harness/gen_formats.py - do not edit */"]
    n = 0
    for who, fmt, fn in lits:
        key = (who == "NULL", fmt)
        if key in seen:
            continue
        seen.add(key)
        conv = conversions(fmt)
        if any(c in "gfe" for _, c in conv):
            continue  # floating point: outside the claim
        args = []
        ns = ni = 0
        for flags, c in conv:
            if c == "s":
                args.append("S[%d]" % (ns % 4)); ns += 1
            elif c in "di":
                args.append("(long)I[%d]" % (ni % 4) if "l" in flags else "I[%d]" % (ni % 4)); ni += 1
            elif c in "ux":
                args.append("(unsigned long)U[%d]" % (ni % 4) if "l" in flags else "U[%d]" % (ni % 4)); ni += 1
            elif c == "c":
                args.append("(int)'x'")
            else:
                args.append("0")
        word = re.match(r"\S*", fmt).group(0)
        rest = fmt[len(word):]
        a = "".join(", " + x for x in args)
        client = 0 if who == "NULL" else 1
        lines.append('FMT_CASE(%d, %d, "%s", "%s", "%s"%s)' % (n, client, fmt, word, rest, a))
        idx.append("#define FMT_NNUM_%d %d" % (n, sum(1 for _, c in conv if c in "diuxc")))
        if fmt == "k :%s":
            idx.append("#define FMT_INDEX_KILL %d" % n)
        if fmt.startswith("X %s %s"):
            idx.append("#define FMT_INDEX_XQUERY %d" % n)
        n += 1
    idx.append("#define N_FORMATS %d" % n)
    with open(os.path.join(outdir, "gen_formats_idx.h"), "w") as f:
        f.write("\n".join(idx) + "\n")
    with open(os.path.join(outdir, "gen_formats.h"), "w") as f:
        f.write("\n".join(lines) + "\n")
    return n
