/* C04a: a routing tag selects a request only if it denotes exactly that request's
 * id and current serial - numerically, without truncation.
 * Symbolic: the tag text  [sign] hex{1..VP_ND} SEP hex{1..VP_ND} [TRAIL]  with every hex
 * digit, the sign, SEP and TRAIL symbolic; a table of 1..2 requests whose id (whole
 * int range) and serial (whole unsigned range) are symbolic.
 * Real code: iauth_validate_request (modules/iauth_core.c), set_find/set_splay, set_compare_int. */
#include "tu/iauth_all.c"
#include "env/iauth_env.h"
#include "vp.h"

#ifndef VP_ND
#define VP_ND 9
#endif
struct event_base *ev_base;
void vp_on_line(const struct vp_line *l) { (void)l; }

static int hexv(char c)
{
    if (c >= '0' && c <= '9') return c - '0';
    if (c >= 'a' && c <= 'f') return c - 'a' + 10;
    if (c >= 'A' && c <= 'F') return c - 'A' + 10;
    return -1;
}

static unsigned put_hex(char *s, unsigned *len, uint64_t *val)
{
    unsigned nd = vp_range(1, VP_ND), i;
    uint64_t v = 0;
    for (i = 0; i < nd; i++) {
        char c = (char)vp_u8();
        VP_ASSUME(hexv(c) >= 0);
        s[*len + i] = c;
        v = v * 16 + (uint64_t)hexv(c);
    }
    *len += nd;
    *val = v;
    return nd;
}

void harness(void)
{
    struct vp_req_elt *e[2];
    struct iauth_request *req;
    char s[2 * VP_ND + 6];
    unsigned len = 0, j, nreq = vp_range(1, 2), sign = vp_range(0, 2);
    uint64_t vid, vser;
    int64_t sid;
    char sep, trail;
    int wellformed;

    iauth_reqs = malloc(sizeof(struct set));
    VP_ASSUME(iauth_reqs != NULL);
    iauth_reqs->compare = set_compare_int; iauth_reqs->cleanup = NULL; iauth_reqs->root = NULL; iauth_reqs->count = 0;
    for (j = 0; j < 2; j++) {
        e[j] = calloc(1, sizeof(*e[j]));
        VP_ASSUME(e[j] != NULL);
        e[j]->req.client = vp_i32();
        e[j]->req.serial = vp_u32();
        if (j == 1) VP_ASSUME(e[1]->req.client != e[0]->req.client);
        if (j < nreq)
            set_insert(iauth_reqs, &e[j]->node);
    }

    if (sign == 1) s[len++] = '-';
    if (sign == 2) s[len++] = '+';
    put_hex(s, &len, &vid);
    sep = (char)vp_u8();
    VP_ASSUME(sep != 0 && hexv(sep) < 0 && sep != 'x' && sep != 'X');
    s[len++] = sep;
    put_hex(s, &len, &vser);
    trail = (char)vp_u8();
    VP_ASSUME(hexv(trail) < 0 && trail != 'x' && trail != 'X');
    s[len++] = trail;
    s[len] = '\0';
    wellformed = (sep == '_') && (trail == '\0');
    sid = sign == 1 ? -(int64_t)vid : (int64_t)vid;

    req = iauth_validate_request(s);

    if (req) {
        VP_ASSERT(wellformed, "a malformed routing tag selects nobody");
        VP_ASSERT(req == &e[0]->req || (nreq == 2 && req == &e[1]->req), "the selected request is in the table");
        VP_ASSERT((int64_t)req->client == sid, "the tag's id part denotes the selected client's id, without truncation");
        VP_ASSERT((uint64_t)req->serial == vser, "the tag's serial part denotes the selected client's current serial, without truncation");
    } else {
        for (j = 0; j < nreq; j++)
            VP_ASSERT(!(wellformed && (int64_t)e[j]->req.client == sid && (uint64_t)e[j]->req.serial == vser),
                      "a well-formed tag naming a live instance finds it");
    }
    VP_COVER(req != NULL && nreq == 2 && req == &e[1]->req, "tag selects the second of two requests");
    VP_COVER(req != NULL && sid < 0, "negative id");
    VP_COVER(req == NULL && wellformed && (int64_t)e[0]->req.client == sid, "right id, stale serial");
    VP_COVER(req == NULL && !wellformed && (int64_t)e[0]->req.client == sid && (uint64_t)e[0]->req.serial == vser, "right numbers, malformed tag");
    VP_COVER(vid > 0xffffffffull && (uint32_t)vid == (uint32_t)e[0]->req.client && wellformed && (uint64_t)e[0]->req.serial == vser, "id part that only matches after truncation to 32 bits");
    VP_COVER(vser > 0xffffffffull && (uint32_t)vser == e[0]->req.serial && wellformed && (int64_t)e[0]->req.client == sid, "serial part that only matches after truncation to 32 bits");
}
