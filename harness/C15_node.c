/* C15 (node level): one merge step of the real conf_replace_value() on ONE live node.
 *
 * -DK_STRING / -DK_INADDR / -DK_LIST: the live node's kind.  Symbolic: whether code
 * registered it (default + counting hook), its current value (one of two candidates or the
 * default or none), whether the new file names it and with which value.
 * The node sits alone in a parent object (live tree) / scratch object (new file); the merge
 * is conf_replace_value(node, source-or-NULL) followed by what conf_read() does with the
 * scratch tree: set_clear(scratch, dispose).
 * Obligations: value = file's value else registered default; unregistered and absent => the
 * node is gone; hook runs exactly when the effective value changes; afterwards every string
 * reachable from the live node is live memory (CBMC deallocated-object / double-free checks
 * on the accesses below and on a SECOND merge step, which is where shared pointers surface).
 * Real code: conf_replace_value, conf_parse_string_value, conf_set_string_list_value,
 * conf_object_cleanup, conf_parse_get_child, conf_register_* (src/config.c), set.c, vectors.
 */
#include "tu/config_tu.c"
#include "vp.h"

static unsigned hook_calls;
static void hook_0(struct conf_node_base *n) { (void)n; hook_calls++; }

/* a one-character value string: concrete size, symbolic content */
static char *mkval(int c)
{
    char *p = malloc(2);
    VP_ASSUME(p != NULL);
    p[0] = (char)c;
    p[1] = '\0';
    return p;
}

static void init_obj(struct conf_node_object *o, struct conf_node_object *parent)
{
    memset(o, 0, sizeof(*o));
    o->base.name = "";
    o->base.parent = parent;
    o->base.type = CONF_OBJECT;
    o->base.specified = 1;
    o->base.present = 1;
    o->contents.compare = conf_object_cmp;
    o->contents.cleanup = conf_object_cleanup;
}

static int streq(const char *a, const char *b) { return (a == NULL || b == NULL) ? a == b : strcmp(a, b) == 0; }

#if defined(K_TYPED)
/* C16c: a registered INTEGER setting: the file's text is delivered as a number; an unparsable
 * text is rejected and the previously parsed value stays in force */
#define K_STRING
#endif
#if defined(K_STRING)
#define KIND CONF_STRING
typedef struct conf_node_string node_t;
#elif defined(K_INADDR)
#define KIND CONF_INADDR
typedef struct conf_node_inaddr node_t;
#elif defined(K_LIST)
#define KIND CONF_STRING_LIST
typedef struct conf_node_string_list node_t;
#endif

static const char *cur_value(node_t *n)
{
#if defined(K_STRING)
    return n->value;
#elif defined(K_INADDR)
    return n->hostname;
#else
    return n->value.used ? n->value.vec[0] : NULL;
#endif
}

/* one scratch file holding (or not) the node, merged and disposed as conf_read() does */
static int one_load(struct conf_node_object *live, node_t **pnode, int registered, int in_file, int val)
{
    struct conf_node_object scratch;
    node_t *src = NULL;
    int gone;
    init_obj(&scratch, NULL);
    if (in_file) {
        src = conf_parse_get_child(&scratch, xstrdup("n"), KIND, sizeof(*src));
#if defined(K_STRING)
        xfree(src->value); src->value = mkval(val);
#elif defined(K_INADDR)
        xfree(src->hostname); xfree(src->service);
        src->hostname = mkval(val); src->service = mkval(val);
#else
        {
            struct string_vector nv;
            memset(&nv, 0, sizeof(nv));
            string_vector_append(&nv, mkval(val));
            conf_set_string_list_value(src, &nv);
            string_vector_clear_int(&nv);
        }
#endif
    }
    if (*pnode) {
        gone = conf_replace_value(&(*pnode)->base, src ? &src->base : NULL);
        if (gone)
            *pnode = NULL;
    } else if (src) {
        /* not in the live tree yet: the object-level merge splices it over */
        set_remove(&scratch.contents, src, 1);
        src->base.parent = live;
        set_insert(&live->contents, set_node(src));
        *pnode = src;
    }
    (void)registered;
    set_clear(&scratch.contents, 0);
    return 0;
}

/* 0 when there is no value, else its (single) character */
static int val_char(const char *v) { return v ? (unsigned char)v[0] : 0; }

void harness(void)
{
    struct conf_node_object live;
    node_t *node = NULL;
    /* whether code registered the node and which of the two files name it is concrete per
     * query (REG, IN0, IN1; the driver enumerates all eight combinations per kind), so that
     * the shape of both trees stays concrete; the VALUES are symbolic: any non-NUL character,
     * equal to each other or to the default 'd' or not */
    const int registered = REG, in0 = IN0, in1 = IN1;
    int v0 = vp_u8(), v1 = vp_u8();
    int want, before;
    unsigned calls0;

    VP_ASSUME(v0 != 0 && v1 != 0);
    conf_get_root();
    init_obj(&live, NULL);
    if (registered) {
#if defined(K_TYPED)
        node = conf_register_string(&live, CONF_STRING_INTEGER, "n", "5");
#elif defined(K_STRING)
        node = conf_register_string(&live, CONF_STRING_PLAIN, "n", "d");
#elif defined(K_INADDR)
        node = conf_register_inaddr(&live, "n", "d", "d");
#else
        node = conf_register_string_list(&live, "n", "d", NULL);
#endif
        node->base.hook = hook_0;
    }
    /* first file */
    one_load(&live, &node, registered, in0, v0);
    before = node ? val_char(cur_value(node)) : 0;
    calls0 = hook_calls;
#if defined(K_TYPED)
    {
        /* typed delivery: REG=1 in these queries */
        int parsed0 = node->parsed.p_integer;
        int t0 = in0 ? v0 : '5', t1 = in1 ? v1 : '5';
        int ok0 = t0 >= '0' && t0 <= '9', ok1 = t1 >= '0' && t1 <= '9';
        VP_ASSERT(parsed0 == (ok0 ? t0 - '0' : 5), "C16: an integer setting delivers the number written, an unparsable first value leaves the default's");
        one_load(&live, &node, registered, in1, v1);
        VP_ASSERT(node->parsed.p_integer == (ok1 ? t1 - '0' : parsed0), "C16: an unparsable typed value is rejected, the previous parsed value stays in force; a parsable one is delivered");
        VP_ASSERT((hook_calls != calls0) == (ok1 && t1 - '0' != parsed0), "C16: the hook runs exactly when the parsed value changes");
        set_clear(&live.contents, 0);
        VP_COVER(!ok1 && ok0, "opt: second value unparsable");
        VP_COVER(ok1 && ok0 && t1 != t0, "opt: both values numbers");
        VP_COVER(!ok0, "opt: first value unparsable");
        return;
    }
#endif

    /* second file: the step under test */
    one_load(&live, &node, registered, in1, v1);

    want = in1 ? v1 : registered ? 'd' : 0;
    VP_ASSERT((node != NULL) == (in1 || registered), "the node exists exactly when the last file names it or code registered it");
    if (node) {
        const char *v = cur_value(node);
        VP_ASSERT(val_char(v) == want && (v == NULL || v[1] == '\0'), "the setting equals the last file's value, else its registered default");
        VP_ASSERT(node->base.present == (unsigned)in1, "the present bit says whether the last file names the node");
#if defined(K_INADDR)
        VP_ASSERT(val_char(node->service) == want, "host and service are updated together");
#endif
        if (registered) {
#if defined(K_INADDR)
            /* host and service names are compared case-insensitively (DNS names) */
            int lb = (before >= 'A' && before <= 'Z') ? before + 32 : before, lw = (want >= 'A' && want <= 'Z') ? want + 32 : want;
            VP_ASSERT((hook_calls != calls0) == (lb != lw), "the setting's hook runs exactly when its effective value changes");
#else
            VP_ASSERT((hook_calls != calls0) == (before != want), "the setting's hook runs exactly when its effective value changes");
#endif
        }
    }
    VP_ASSERT(set_size(&live.contents) == (unsigned)(node != NULL), "the live object holds the node or nothing");
    /* third step: everything still owned by the live tree can be released exactly once */
    set_clear(&live.contents, 0);

#ifndef K_TYPED
    VP_COVER(v0 != v1, "the two files give different values");
    VP_COVER(v0 == v1, "the two files give the same value");
    VP_COVER(v1 == 'd' && v0 != 'd', "the second file spells out the default");
#endif
}
