/* vp.h - support layer shared by every harness.
 *
 * Two build modes of the *same* harness file:
 *   (default)  symbolic: compiled by goto-cc, decided by CBMC.  vp_u8() & co.
 *              return unconstrained values; VP_ASSERT is a proof obligation;
 *              VP_COVER(c) is a reachability obligation (an assertion of !c
 *              that is *expected to fail*: its counterexample is a witness
 *              that the harness reaches the situation c inside the bound).
 *   -DREPLAY   native: compiled by gcc with ASan/UBSan against the same /repo
 *              units and the real libc.  vp_u8() & co. read the values the
 *              solver chose (extracted from the CBMC trace) from a file.
 */
#ifndef VP_H
#define VP_H

#include <stddef.h>
#include <stdint.h>

#ifdef REPLAY

void vp_fail(const char *msg, const char *file, int line);
void vp_infeasible(const char *what, const char *file, int line);
void vp_cover_hit(const char *msg);
void vp_oracle_mismatch(const char *msg);
#define VP_ASSERT(c, msg) do { if (!(c)) vp_fail(msg, __FILE__, __LINE__); } while (0)
#define VP_ASSUME(c) do { if (!(c)) vp_infeasible(#c, __FILE__, __LINE__); } while (0)
#define VP_COVER(c, msg) do { if (c) vp_cover_hit(msg); } while (0)
#define VP_SYMBOLIC 0

#else

#define VP_ASSERT(c, msg) __CPROVER_assert((c), "PROP: " msg)
#define VP_ASSUME(c) __CPROVER_assume(c)
#define VP_COVER(c, msg) __CPROVER_assert(!(c), "COVER: " msg)
#define VP_SYMBOLIC 1

#endif

/* Symbolic inputs.  Every harness obtains *all* of its unconstrained data
 * through these, in program order; that order is what makes a solver trace
 * replayable. */
uint8_t vp_u8(void);
uint16_t vp_u16(void);
uint32_t vp_u32(void);
uint64_t vp_u64(void);
int32_t vp_i32(void);
int vp_bool(void);
/* n unconstrained bytes */
void vp_bytes(void *buf, size_t n);
/* n non-NUL bytes followed by NUL (buf must hold n+1) */
void vp_str(char *buf, size_t n);
/* value in [lo,hi] */
uint32_t vp_range(uint32_t lo, uint32_t hi);

#endif
